"""C10 - dependencies resolve by the documented fallback policy, from verified sources.

One scenario = a generated world (system pkg-config state, subprojects/ layout,
wrap file, package cache, packagefiles, fake HTTP server script) + a build file
with 1-3 dependency() calls + wrap_mode / force_fallback_for, configured twice
("and on the next run").  The real interpreter, DependencyFallbacksHolder,
pkg-config binary and wrap.Resolver run in a forked child; the network, the
back-off clock and the unpacker are simulator seams.
"""
from __future__ import annotations

import copy
import hashlib
import io
import json
import os
import random
import re
import shutil
import tarfile
import typing as T

from sim.core import env as E
from sim.core import prng
from sim.core import runner as R
from sim.core import mesonrun as M
from sim.core.forkrun import forkrun, ChildTimeout, ChildCrashed
from sim.net import fakenet
from models import deps_ref as DR

SRC_FN = 'foosub-1.0.tar.gz'
PATCH_FN = 'foosub-1.0-patch.tar.gz'
URLS = {
    'source_primary': 'http://dl.example.invalid/foosub-1.0.tar.gz',
    'source_fallback': 'http://mirror.example.invalid/foosub-1.0.tar.gz',
    'patch_primary': 'http://dl.example.invalid/foosub-1.0-patch.tar.gz',
    'patch_fallback': 'http://mirror.example.invalid/foosub-1.0-patch.tar.gz',
}
SIB_URL = 'http://sib.example.invalid/archive/foosub-1.0.tar.gz'       # never answers
DEP_RE = re.compile(r'Message: DEP (\d+) found=(true|false) type=(\S+) version=(\S+)')


def q(s: str) -> str:
    return "'" + s + "'"


def make_tar(files: T.Dict[str, str]) -> bytes:
    bio = io.BytesIO()
    with tarfile.open(fileobj=bio, mode='w:gz', format=tarfile.PAX_FORMAT) as tf:
        for name in sorted(files):
            data = files[name].encode()
            ti = tarfile.TarInfo(name)
            ti.size = len(data)
            ti.mtime = 946684800
            ti.mode = 0o644
            tf.addfile(ti, io.BytesIO(data))
    # gzip header carries an mtime; normalise it for determinism
    b = bytearray(bio.getvalue())
    b[4:8] = b'\x00\x00\x00\x00'
    return bytes(b)


def sub_buildfile(sub: T.Dict[str, T.Any], version: str, marker: str) -> str:
    dopt = f", default_options: ['default_library={sub['default_library']}']" if sub.get('default_library') else ''
    s = f"project('foosub', version: {q(version)}{dopt})\n"
    s += f"message('SUBMARK {marker}')\n"
    if not sub.get('configures', True):
        s += "error('subproject refuses to configure')\n"
    s += f"foo_dep = declare_dependency(version: {q(version)})\n"
    if sub.get('provides', 'both') in ('override', 'both'):
        s += "meson.override_dependency('foo', foo_dep)\n"
    if sub.get('provides', 'both') in ('nothing', 'override'):
        s = s.replace('foo_dep = ', 'hidden_dep = ').replace("('foo', foo_dep)", "('foo', hidden_dep)")
    return s


class Check:
    id = 'C10'
    level = 'exploration'
    quick_n = 700
    thorough_budget_s = 900
    scenario_wall_limit = 300.0
    shrink_runs = 200
    rule = ('scenario = {system foo absent/1.2.0/2.5.0} x {no subproject, directory already there, wrap-file to be acquired} x '
            '{[provide] entry or not; subproject overrides foo / exposes a variable / neither; configures or errors} x wrap_mode x '
            'force_fallback_for x 1-3 dependency() calls over version/required/fallback/allow_fallback (+ static: with project and subproject '
            'default_library settings of their own), plus for wrap-file subprojects: '
            'package cache and packagefiles states, recorded hashes right/wrong, patch via URL/packagefiles/patch_directory, diff_files, '
            'and a fake-server fault script per URL (URLError, OSError, truncated body, flipped byte, different archive, missing '
            'Content-Length) injected at fetch/verify/unpack/patch/diff; each world is configured twice. Non-trivial when a fallback or '
            'wrap acquisition was attempted, a fault fired, or >=2 lookups ran. Distinct by (policy cell, acquisition path, fault kinds).')
    interleaving_measure = 'hash of (lookup results, acquisition stage reached, fault kinds fired, requests per URL)'
    engine_desc = {
        'real': ['interpreter dependency() -> DependencyFallbacksHolder.lookup', 'find_external_dependency with the real pkg-config binary (private PKG_CONFIG_LIBDIR)',
                 'wrap.Resolver: _resolve/_get_file_internal/_download/get_data_with_backoff/check_hash/apply_patch/apply_diff_files with the real patch(1)',
                 'meson subprojects download'],
        'stub': ['urllib.request.urlopen (scripted fake server)', 'time.sleep (simulated back-off clock)', 'shutil.unpack_archive is wrapped to digest its input, then runs for real'],
    }
    assumptions = [
        'a native file declares cmake as not installed, so only pkg-config decides what the system provides',
        'wrap-git/hg/svn are not generated (no hash applies, no network)',
        'back-off: at most 6 requests per URL and 31 simulated seconds',
    ]

    def prepare(self, tier: str) -> None:
        M.warm()

    # ------------------------------------------------------------------ generation
    # ---- exhaustive policy cells (thorough tier): the fault-free cross product named in the property's quantifier
    CELL_DIMS: T.List[T.Tuple[str, T.List[T.Any]]] = [
        ('sys', [None, '1.2.0', '2.5.0']),
        ('version', [None, '>=2.0', '<2.0']),
        ('subcfg', ['none', 'dir-both-provide', 'dir-variable-noprovide', 'dir-override-names', 'wrap-both-provide', 'wrap-nothing-provide', 'wrap-variable-noprovide', 'dir-broken-provide']),
        ('wrap_mode', ['default', 'nofallback', 'nodownload', 'forcefallback', 'nopromote']),
        ('fff', [[], ['foo'], ['foosub']]),
        ('required', [True, False]),
        ('fb', ['plain', 'fallback1', 'fallback2', 'fallback-empty', 'allow-true', 'allow-false']),
    ]

    @classmethod
    def n_cells(cls) -> int:
        n = 1
        for _, vals in cls.CELL_DIMS:
            n *= len(vals)
        return n

    RECONF_CHOICES: T.List[T.Optional[T.Dict[str, T.Any]]] = [
        None, {'wrap_mode': 'default', 'fff': ['foosub']}, {'wrap_mode': 'forcefallback', 'fff': []}, {'wrap_mode': 'default', 'fff': ['foo']},
        {'wrap_mode': 'nofallback', 'fff': []}, {'wrap_mode': 'default', 'fff': []}, None]

    def cell(self, k: int) -> T.Dict[str, T.Any]:
        k0 = k
        pick: T.Dict[str, T.Any] = {}
        for name, vals in self.CELL_DIMS:
            pick[name] = vals[k % len(vals)]
            k //= len(vals)
        w: T.Dict[str, T.Any] = {'kind': 'c10', 'sys': pick['sys'], 'net': {}, 'wrap_mode': pick['wrap_mode'], 'fff': pick['fff'], 'cmd': 'setup', 'cell': True}
        sc = pick['subcfg']
        if sc == 'none':
            w['sub'] = None
        else:
            kind, prov, wp = sc.split('-')
            sub: T.Dict[str, T.Any] = {'kind': 'dir' if kind == 'dir' else 'wrap', 'version': '3.0', 'provides': 'both' if prov == 'both' else prov if prov != 'broken' else 'both',
                                       'configures': prov != 'broken', 'wrapfile': True,
                                       'wrap': {'provide': {'provide': 'foo_dep', 'noprovide': None, 'names': 'names'}.get(wp, 'foo_dep')}}
            if sub['kind'] == 'wrap':
                sub['wrap'].update({'source': {'hash_ok': True, 'fallback_url': False, 'cache': 'none'}, 'upstream_has_buildfile': True, 'patch': None, 'diff': None})
            w['sub'] = sub
        c: T.Dict[str, T.Any] = {'version': pick['version'], 'required': pick['required']}
        fb = pick['fb']
        if fb == 'fallback1':
            c['fallback'] = ['foosub']
        elif fb == 'fallback2':
            c['fallback'] = ['foosub', 'foo_dep']
        elif fb == 'fallback-empty':
            c['fallback'] = []
        elif fb == 'allow-true':
            c['allow_fallback'] = True
        elif fb == 'allow-false':
            c['allow_fallback'] = False
        # a second, identical lookup checks "repeated lookups return the same dependency"
        w['calls'] = [c, dict(c)]
        # ... and the same build directory is configured again under other fallback settings (what the first run cached must not decide)
        rc = self.RECONF_CHOICES[k0 % len(self.RECONF_CHOICES)]
        if rc is not None:
            w['reconf'] = copy.deepcopy(rc)
        return w

    def generate(self, rng: random.Random, tier: str, index: int) -> T.Dict[str, T.Any]:
        if tier != 'quick' and index < self.n_cells():
            return self.cell(index)
        w: T.Dict[str, T.Any] = {'kind': 'c10'}
        w['sys'] = rng.choice([None, None, '1.2.0', '2.5.0'])
        kind = rng.choice(['none', 'dir', 'wrap', 'wrap', 'wrap'])
        faulty = rng.random() < 0.6
        if kind == 'none':
            w['sub'] = None
        else:
            sub: T.Dict[str, T.Any] = {
                'kind': kind, 'version': rng.choice(['1.5', '3.0']),
                'provides': rng.choice(['override', 'variable', 'both', 'both', 'nothing']),
                'configures': rng.random() < 0.85,
                'wrapfile': kind == 'wrap' or rng.random() < 0.6,
            }
            wr: T.Dict[str, T.Any] = {'provide': rng.choice([None, 'foo_dep', 'foo_dep', 'names'])}
            if kind == 'wrap':
                wr['source'] = {'hash_ok': rng.random() < (0.93 if faulty else 1.0), 'fallback_url': rng.random() < 0.5,
                                'cache': rng.choice(['none', 'none', 'none', 'none', 'good', 'good', 'corrupt', 'other']) if faulty else rng.choice(['none', 'none', 'good'])}
                wr['upstream_has_buildfile'] = rng.random() < 0.6
                pk = rng.choice([None, 'url', 'url', 'packagefiles', 'directory'])
                if pk is None and not wr['upstream_has_buildfile'] and rng.random() < 0.8:
                    pk = 'url'
                if pk == 'url':
                    wr['patch'] = {'via': 'url', 'hash_ok': rng.random() < (0.93 if faulty else 1.0), 'fallback_url': rng.random() < 0.4,
                                   'cache': rng.choice(['none', 'none', 'none', 'good', 'corrupt']) if faulty else rng.choice(['none', 'good'])}
                elif pk == 'packagefiles':
                    wr['patch'] = {'via': 'packagefiles', 'hash': rng.choice(['ok', 'absent', 'wrong' if faulty else 'ok']),
                                   'present': rng.random() < (0.85 if faulty else 1.0), 'corrupt': faulty and rng.random() < 0.25}
                elif pk == 'directory':
                    wr['patch'] = {'via': 'directory', 'present': rng.random() < (0.85 if faulty else 1.0)}
                else:
                    wr['patch'] = None
                wr['diff'] = rng.choice([None, None, 'good', 'bad' if faulty else 'good', 'missing' if faulty else None])
            sub['wrap'] = wr
            w['sub'] = sub
        # network script
        net: T.Dict[str, T.List[str]] = {}
        if faulty and kind == 'wrap':
            for key, url in URLS.items():
                if rng.random() < 0.6:
                    # mostly transient trouble that the back-off should ride out; sometimes persistent
                    n = rng.choice([1, 1, 2, 2, 3, 5, 6, 7])
                    net[url] = [rng.choice(['err', 'err', 'err', 'oserr', 'oserr', 'trunc', 'flip', 'other', 'nolen']) for _ in range(n)]
        w['net'] = net
        w['wrap_mode'] = rng.choice(['default', 'default', 'default', 'nofallback', 'nodownload', 'forcefallback', 'nopromote'])
        w['fff'] = rng.choice([[], [], [], ['foo'], ['foosub'], ['other']])
        calls = []
        for _ in range(rng.choice([1, 1, 2, 3])):
            c: T.Dict[str, T.Any] = {'version': rng.choice([None, None, '>=2.0', '<2.0', '>=1.0', '>=9.0']), 'required': rng.random() < 0.5}
            mode = rng.choice(['plain', 'fallback1', 'fallback2', 'fallback-empty', 'allow-true', 'allow-false'])
            if mode == 'fallback1':
                c['fallback'] = ['foosub']
            elif mode == 'fallback2':
                c['fallback'] = ['foosub', 'foo_dep']
            elif mode == 'fallback-empty':
                c['fallback'] = []
            elif mode == 'allow-true':
                c['allow_fallback'] = True
            elif mode == 'allow-false':
                c['allow_fallback'] = False
            if calls and rng.random() < 0.35:
                # a follow-up lookup that differs from the previous one only in its version constraint
                c = dict(calls[-1])
                c['version'] = rng.choice([None, '>=2.0', '<2.0', '>=9.0'])
                if rng.random() < 0.3:
                    c['required'] = False
            calls.append(c)
        w['calls'] = calls
        pre = []
        if rng.random() < 0.12:
            pre.append({'kind': 'override', 'version': rng.choice(['0.9', '2.2']), 'found': rng.random() < 0.85})
        if w['sub'] is not None and rng.random() < 0.15:
            pre.append({'kind': 'subproject'})
        if len(pre) > 1:
            # overriding a name twice (top project + subproject) is an error by itself, not a lookup
            pre = [rng.choice(pre)]
        if pre:
            w['pre'] = pre
        w['cmd'] = 'setup' if rng.random() < 0.9 or kind != 'wrap' else 'download'
        if w['cmd'] == 'setup' and rng.random() < 0.4:
            if w['wrap_mode'] != 'forcefallback' and not w['fff'] and rng.random() < 0.6:
                # the first run may use (and cache) the system dependency; the second one forces the fallback
                w['reconf'] = rng.choice([{'wrap_mode': w['wrap_mode'], 'fff': ['foosub']}, {'wrap_mode': w['wrap_mode'], 'fff': ['foo']},
                                          {'wrap_mode': 'forcefallback', 'fff': []}])
            else:
                w['reconf'] = {'wrap_mode': rng.choice(['default', 'default', 'forcefallback', 'nofallback', 'nodownload']),
                               'fff': rng.choice([[], ['foo'], ['foosub'], ['foosub'], ['other']])}
        if not pre and rng.random() < 0.3:
            # every lookup of this world asks for one library flavour (static:); the project and the subproject
            # have default_library settings of their own. The documented policy does not depend on any of it:
            # the fallback subproject is configured for the requested flavour.
            st_ = rng.random() < 0.5
            for c in calls:
                c['static'] = st_
            flavour = 'static' if st_ else 'shared'
            w['default_library'] = flavour if rng.random() < 0.6 else rng.choice([None, 'static', 'shared', 'both'])
            if w['sub'] is not None:
                w['sub']['default_library'] = ('shared' if st_ else 'static') if rng.random() < 0.6 else rng.choice([None, 'static', 'shared', 'both'])
        # (extra stream, added late) a second wrap whose source archive has the *same file name* as foosub's (release archives
        # called v1.0.tar.gz are common) but another recorded hash: whatever lies in the package cache under that name - put
        # there beforehand or by foosub's download earlier in the same run - is not its archive and must be refused
        rx = prng.derive(prng.base_seed(), 'c10-extra', tier, index)
        if w.get('sub') is not None and w['sub']['kind'] == 'wrap' and w.get('cmd') != 'download' and rx.random() < 0.4:
            w['sibling'] = True
        # a lookup under two names: the first is only known to the system, the second was overridden by the project - the override wins
        if rx.random() < 0.5:
            w['multi'] = True
        return w

    # ------------------------------------------------------------------ world on disk
    def build_world(self, w: T.Dict[str, T.Any], root: str) -> T.Dict[str, T.Any]:
        sd = os.path.join(root, 'src')
        pc = os.path.join(root, 'pc')
        os.makedirs(sd)
        os.makedirs(pc)
        if w.get('sys'):
            with open(os.path.join(pc, 'foo.pc'), 'w') as f:
                f.write(f"Name: foo\nDescription: system foo\nVersion: {w['sys']}\nLibs: -lfoo\n")
        dl = f", default_options: ['default_library={w['default_library']}']" if w.get('default_library') else ''
        lines = [f"project('c10', meson_version: '>=0.60.0'{dl})\n"]
        for pre in w.get('pre', []):
            if pre['kind'] == 'override':
                if pre.get('found', True):
                    lines.append(f"meson.override_dependency('foo', declare_dependency(version: {q(pre['version'])}))\n")
                else:
                    lines.append("meson.override_dependency('foo', dependency('', required: false))\n")
            elif pre['kind'] == 'subproject' and w.get('sub') is not None:
                lines.append("sp_first = subproject('foosub', required: false)\nmessage('SUBFIRST found=@0@'.format(sp_first.found()))\n")
        for i, c in enumerate(w['calls'], 1):
            kw = [f"required: {'true' if c.get('required', True) else 'false'}"]
            if c.get('version'):
                kw.append(f"version: {q(c['version'])}")
            if 'fallback' in c and c['fallback'] is not None:
                kw.append('fallback: [' + ', '.join(q(x) for x in c['fallback']) + ']')
            if c.get('allow_fallback') is not None:
                kw.append(f"allow_fallback: {'true' if c['allow_fallback'] else 'false'}")
            if c.get('static') is not None:
                kw.append(f"static: {'true' if c['static'] else 'false'}")
            lines.append(f"d{i} = dependency('foo', {', '.join(kw)})\n")
            lines.append(f"message('DEP {i} found=@0@ type=@1@ version=@2@'.format(d{i}.found(), d{i}.type_name(), d{i}.found() ? d{i}.version() : 'n/a'))\n")
        if w.get('multi'):
            with open(os.path.join(pc, 'c10sys.pc'), 'w') as f:
                f.write("Name: c10sys\nDescription: only the system has it\nVersion: 1.0\nLibs: -lc10sys\n")
            lines.append("meson.override_dependency('c10ovr', declare_dependency(version: '7.7'))\n"
                         "dm = dependency('c10sys', 'c10ovr', required: false)\n"
                         "message('MULTI found=@0@ type=@1@ version=@2@'.format(dm.found(), dm.type_name(), dm.found() ? dm.version() : 'n/a'))\n")
        if w.get('sibling'):
            lines.append("sib = subproject('sibsub', required: false)\nmessage('SIB found=@0@'.format(sib.found()))\n")
        with open(os.path.join(sd, 'meson.build'), 'w') as f:
            f.write(''.join(lines))
        sub = w.get('sub')
        info: T.Dict[str, T.Any] = {'sd': sd, 'pc': pc, 'bodies': {}, 'hashes': {}}
        other = make_tar({f'{DR.SUBDIR}/meson.build': "project('evil', version: '6.6.6')\nfoo_dep = declare_dependency(version: '6.6.6')\nmeson.override_dependency('foo', foo_dep)\n"})
        info['other'] = other
        if sub is None:
            return info
        sp = os.path.join(sd, 'subprojects')
        os.makedirs(sp)
        wr = sub['wrap']
        if sub['kind'] == 'dir':
            d = os.path.join(sp, DR.SUBNAME if not sub.get('wrapfile') else DR.SUBDIR)
            os.makedirs(d)
            with open(os.path.join(d, 'meson.build'), 'w') as f:
                f.write(sub_buildfile(sub, sub['version'], 'dir'))
            if sub.get('wrapfile'):
                wl = ['[wrap-file]', f'directory = {DR.SUBDIR}', '']
                if wr.get('provide'):
                    wl += ['[provide]', 'dependency_names = foo' if wr['provide'] == 'names' else f"foo = {wr['provide']}", '']
                with open(os.path.join(sp, f'{DR.SUBNAME}.wrap'), 'w') as f:
                    f.write('\n'.join(wl))
            return info
        # wrap-file subproject
        up_files = {f'{DR.SUBDIR}/src.txt': 'upstream source\nline two\nline three\n'}
        patch = wr.get('patch')
        if wr.get('upstream_has_buildfile', True):
            up_files[f'{DR.SUBDIR}/meson.build'] = sub_buildfile(sub, sub['version'] if patch is None else DR.UNPATCHED_VERSION, 'upstream')
        src_body = make_tar(up_files)
        overlay = {f'{DR.SUBDIR}/meson.build': sub_buildfile(sub, sub['version'], 'patched'), f'{DR.SUBDIR}/overlay.txt': 'overlay\n'}
        patch_body = make_tar(overlay)
        info['bodies'] = {URLS['source_primary']: src_body, URLS['source_fallback']: src_body}
        src_hash = hashlib.sha256(src_body).hexdigest()
        patch_hash = hashlib.sha256(patch_body).hexdigest()
        wrong = hashlib.sha256(b'wrong').hexdigest()
        info['hashes'] = {SRC_FN: src_hash if wr['source'].get('hash_ok', True) else wrong}
        wl = ['[wrap-file]', f'directory = {DR.SUBDIR}', f"source_url = {URLS['source_primary']}", f'source_filename = {SRC_FN}',
              f"source_hash = {info['hashes'][SRC_FN]}"]
        if wr['source'].get('fallback_url'):
            wl.append(f"source_fallback_url = {URLS['source_fallback']}")
        cache = os.path.join(sp, 'packagecache')
        pf = os.path.join(sp, 'packagefiles')

        def put_cache(fn: str, state: str, good: bytes) -> None:
            if state == 'none':
                return
            os.makedirs(cache, exist_ok=True)
            data = good
            if state == 'corrupt':
                b = bytearray(good)
                b[len(b) // 2] ^= 0xff
                data = bytes(b)
            elif state == 'other':
                data = other
            with open(os.path.join(cache, fn), 'wb') as f:
                f.write(data)
        put_cache(SRC_FN, wr['source'].get('cache', 'none'), src_body)
        if patch is not None:
            if patch['via'] == 'url':
                info['bodies'][URLS['patch_primary']] = patch_body
                info['bodies'][URLS['patch_fallback']] = patch_body
                info['hashes'][PATCH_FN] = patch_hash if patch.get('hash_ok', True) else wrong
                wl += [f"patch_url = {URLS['patch_primary']}", f'patch_filename = {PATCH_FN}', f"patch_hash = {info['hashes'][PATCH_FN]}"]
                if patch.get('fallback_url'):
                    wl.append(f"patch_fallback_url = {URLS['patch_fallback']}")
                put_cache(PATCH_FN, patch.get('cache', 'none'), patch_body)
            elif patch['via'] == 'packagefiles':
                wl.append(f'patch_filename = {PATCH_FN}')
                if patch.get('hash', 'absent') != 'absent':
                    info['hashes'][PATCH_FN] = patch_hash if patch['hash'] == 'ok' else wrong
                    wl.append(f"patch_hash = {info['hashes'][PATCH_FN]}")
                if patch.get('present', True):
                    os.makedirs(pf, exist_ok=True)
                    data = patch_body
                    if patch.get('corrupt'):
                        data = patch_body[:len(patch_body) // 2]
                    with open(os.path.join(pf, PATCH_FN), 'wb') as f:
                        f.write(data)
            elif patch['via'] == 'directory':
                wl.append('patch_directory = foosub-overlay')
                if patch.get('present', True):
                    od = os.path.join(pf, 'foosub-overlay')
                    os.makedirs(od, exist_ok=True)
                    for name, content in overlay.items():
                        with open(os.path.join(od, os.path.basename(name)), 'w') as f:
                            f.write(content)
        if wr.get('diff') is not None:
            wl.append('diff_files = fix.diff')
            os.makedirs(pf, exist_ok=True)
            if wr['diff'] == 'good':
                diff = ("--- a/src.txt\n+++ b/src.txt\n@@ -1,3 +1,3 @@\n upstream source\n-line two\n+line two patched\n line three\n")
            else:
                diff = ("--- a/src.txt\n+++ b/src.txt\n@@ -1,3 +1,3 @@\n something else\n-entirely different\n+will not apply\n no match\n")
            if wr['diff'] != 'missing':
                with open(os.path.join(pf, 'fix.diff'), 'w') as f:
                    f.write(diff)
        wl.append('')
        if wr.get('provide'):
            wl += ['[provide]', 'dependency_names = foo' if wr['provide'] == 'names' else f"foo = {wr['provide']}", '']
        with open(os.path.join(sp, f'{DR.SUBNAME}.wrap'), 'w') as f:
            f.write('\n'.join(wl))
        if w.get('sibling'):
            sib_body = make_tar({'sibsub-1.0/meson.build': "project('sibsub', version: '0.1')\n"})
            info['sib_hash'] = hashlib.sha256(sib_body).hexdigest()
            with open(os.path.join(sp, 'sibsub.wrap'), 'w') as f:
                f.write('\n'.join(['[wrap-file]', 'directory = sibsub-1.0', f'source_url = {SIB_URL}', f'source_filename = {SRC_FN}',
                                   f"source_hash = {info['sib_hash']}", '']))
        return info

    # ------------------------------------------------------------------ execution
    def run(self, sc: T.Dict[str, T.Any]) -> T.Dict[str, T.Any]:
        root = E.mkscratch('c10')
        try:
            return self._run(sc, os.path.realpath(root))
        except ChildTimeout as e:
            return R.violation('hang-wall', f'meson exceeded the wall limit: {e}'[:1500], 'hang-wall')
        except ChildCrashed as e:
            return R.harness_error(f'child crashed: {e}')
        finally:
            E.rmscratch(root)

    def configure_once(self, root: str, info: T.Dict[str, T.Any], w: T.Dict[str, T.Any], net: T.Dict[str, T.List[str]], tag: str,
                       reconfigure_of: T.Optional[str] = None) -> T.Dict[str, T.Any]:
        sd = info['sd']
        bd = os.path.join(root, f'bd-{reconfigure_of or tag}')
        nf = os.path.join(root, 'native.ini')
        if not os.path.exists(nf):
            with open(nf, 'w') as f:
                # the outcome must not depend on the host's cmake: make it "not installed"
                f.write("[binaries]\ncmake = 'cmake-is-not-installed-here'\n")
        args = ['setup', '--backend=none', '--native-file', nf, bd, sd]
        if w.get('wrap_mode', 'default') != 'default':
            args.append(f"--wrap-mode={w['wrap_mode']}")
        if w.get('fff'):
            args.append('-Dforce_fallback_for=' + ','.join(w['fff']))
        if w.get('cmd') == 'download' and tag == '1':
            args = ['subprojects', 'download', '--sourcedir', sd]
        if reconfigure_of is not None:
            # the same build directory again, with other fallback settings: what an earlier run cached must not decide
            args = ['setup', '--reconfigure', bd, sd, f"--wrap-mode={w.get('wrap_mode', 'default')}", '-Dforce_fallback_for=' + ','.join(w.get('fff') or [])]
        bodies, other = info['bodies'], info['other']

        def body() -> T.Dict[str, T.Any]:
            log = fakenet.install(bodies, net, other)
            from mesonbuild import mesonmain
            try:
                rc = mesonmain.run(args, E.meson_py())
            except SystemExit as e:
                rc = e.code if isinstance(e.code, int) else 1
            d = log.as_dict()
            d['rc'] = rc
            return d
        env = M.clean_env({'PKG_CONFIG_LIBDIR': info['pc'], 'PKG_CONFIG_PATH': ''})
        r = forkrun(body, capture=os.path.join(root, f'cfg-{tag}.log'), timeout=200, env=env)
        return r

    def _run(self, sc: T.Dict[str, T.Any], root: str) -> T.Dict[str, T.Any]:
        w = copy.deepcopy(sc)
        info = self.build_world(w, root)
        faults: T.Dict[str, int] = {}
        probes: T.Dict[str, int] = {}

        def add(d: T.Dict[str, int], k: str, n: int = 1) -> None:
            d[k] = d.get(k, 0) + n
        model_world = copy.deepcopy(w)
        keyparts: T.List[T.Any] = []
        sim_time = 0.0
        summaries = []
        nontrivial = False
        first_rc: T.Optional[int] = None
        first_used_system = False
        for run_i in (1, 2, 3):
            if run_i == 3:
                if not w.get('reconf') or w.get('cmd') == 'download' or first_rc != 0:
                    break
                w = dict(w, wrap_mode=w['reconf']['wrap_mode'], fff=list(w['reconf']['fff']))
                model_world['wrap_mode'], model_world['fff'] = w['wrap_mode'], list(w['fff'])
                model_world['cached_sys'] = first_used_system
                add(faults, 'reconfigure-with-other-fallback-settings')
            is_download = w.get('cmd') == 'download' and run_i == 1
            if is_download:
                # `meson subprojects download` acquires every wrap unconditionally, whatever wrap_mode says
                exp, st = [], DR.State()
                dl_world = copy.deepcopy(model_world)
                dl_world['wrap_mode'] = 'default'
                if dl_world.get('sub') is not None and dl_world['sub']['kind'] == 'wrap':
                    st.sub_acq = DR.acquire(dl_world['sub'], dl_world.get('net', {}), 'default', URLS)
                    st.requests = dict(st.sub_acq.requests)
                    st.sub_state = 'ok' if st.sub_acq.ok else 'failed'
                    model_world['sub'] = dl_world['sub']
            else:
                exp, st = DR.run_config(model_world, URLS)
            r = self.configure_once(root, info, w, model_world.get('net', {}), str(run_i), reconfigure_of='1' if run_i == 3 else None)
            if not r['ok']:
                if r['exc_in_sut']:
                    return R.violation('sut-exception', f'run {run_i}: meson raised: {r["exc"][-2000:]}', 'sut-exception:' + str(r['exc_type']), faults=faults, probes=probes)
                return R.harness_error('configure failed in harness: ' + str(r['exc'])[-2500:])
            v = r['value']
            out = r['out']
            if run_i == 1:
                first_rc = v['rc']
                first_used_system = bool(re.search(r'DEP \d+ found=true type=pkgconfig', out))
            for k, n in v['faults'].items():
                add(faults, k, n)
            sim_time += v['sim_time']
            trace = {'run': run_i, 'requests': v['requests'], 'sleeps': v['sleeps'], 'unpacks': v['unpacks'], 'rc': v['rc'],
                     'expected': [list(e) if not isinstance(e, str) else e for e in exp], 'log_tail': out[-1500:]}
            base = dict(faults=faults, probes=probes, trace=trace, sim_time=sim_time)
            if 'Traceback (most recent call last)' in out and not (st.sub_acq is not None and st.sub_acq.stage == 'patch-unpack'):
                return R.violation('sut-exception', f'run {run_i}: traceback printed: {out[-2000:]}', 'sut-exception:printed', **base)
            # ---- integrity invariants (independent of the policy model)
            if w.get('multi') and not is_download:
                mm = re.search(r'MULTI found=(\S+) type=(\S+) version=(\S+)', out)
                if mm is not None and mm.groups() != ('true', 'internal', '7.7'):
                    return R.violation('policy', f"run {run_i}: dependency('c10sys', 'c10ovr') with c10ovr overridden by the project (7.7) and c10sys 1.0 on the system gives "
                                       f'{mm.groups()}: an overridden dependency wins', 'policy:multi-name:override-loses', **base)
                if mm is not None:
                    add(probes, 'multi-name-lookup')
            if w.get('sibling'):
                sib_rq = [rq for rq in v['requests'] if rq['url'] == SIB_URL]
                if sib_rq:
                    add(probes, 'sibling-wrap-tried-its-own-url')
                    if w.get('wrap_mode') == 'nodownload' and not is_download:
                        return R.violation('fetched-under-nodownload', f'run {run_i}: {len(sib_rq)} request(s) for the second wrap under wrap_mode=nodownload',
                                           'fetched-under-nodownload', **base)
                    # the second wrap's own URL never answers; its retries are not part of what the model of foosub predicts
                    t_sib = sum(s_ for s_ in v['sleeps'][-(len(sib_rq) - 1):]) if len(sib_rq) > 1 else 0.0
                    v['requests'] = [rq for rq in v['requests'] if rq['url'] != SIB_URL]
                    v['sim_time'] = max(0.0, v['sim_time'] - t_sib)
                else:
                    add(probes, 'sibling-wrap-met-shared-file-name-in-cache')
                for u in v['unpacks']:
                    if u.get('wrap') == 'sibsub' and u['sha256'] != info['sib_hash']:
                        return R.violation('unverified-archive-used', f'run {run_i}: the second wrap records {info["sib_hash"][:16]}... for {os.path.basename(u["path"])} but what lay '
                                           f'under that name ({u["sha256"][:16]}...) was unpacked for it', 'unverified-archive-used:shared-file-name', **base)
                if re.search(r'SIB found=true', out):
                    return R.violation('unverified-archive-used', f'run {run_i}: the second wrap, whose archive nobody serves, was configured', 'unverified-archive-used:shared-file-name:configured', **base)
            for u in v['unpacks']:
                if u.get('wrap') == 'sibsub':
                    continue
                fn = os.path.basename(u['path'])
                rec = info['hashes'].get(fn)
                if rec is not None and u['sha256'] != rec:
                    return R.violation('unverified-archive-used', f'run {run_i}: {fn} with sha256 {u["sha256"][:16]}... was unpacked although the wrap records {rec[:16]}... '
                                       f'(path {os.path.relpath(u["path"], root)})', f'unverified-archive-used:{"cache" if "packagecache" in u["path"] else "packagefiles" if "packagefiles" in u["path"] else "other"}:{fn}', **base)
            if w.get('wrap_mode') == 'nodownload' and v['requests'] and not is_download:
                return R.violation('fetched-under-nodownload', f'run {run_i}: {len(v["requests"])} request(s) under wrap_mode=nodownload: {v["requests"][:3]}',
                                   'fetched-under-nodownload', **base)
            per_url: T.Dict[str, int] = {}
            for rq in v['requests']:
                per_url[rq['url']] = per_url.get(rq['url'], 0) + 1
            if any(n > DR.MAX_ATTEMPTS for n in per_url.values()) or v['sim_time'] > 31.0 * max(1, len(per_url)) + 1e-9:
                return R.violation('backoff-unbounded', f'run {run_i}: requests per URL {per_url}, simulated back-off {v["sim_time"]}s', 'backoff-unbounded', **base)
            if v['sleeps']:
                add(probes, 'backoff-slept')
            sub = model_world.get('sub')
            subdir = os.path.join(info['sd'], 'subprojects', DR.SUBDIR)
            if sub is not None and sub['kind'] == 'wrap' and st.sub_acq is not None and not sub.get('dir_present'):
                add(probes, 'acquisition-' + (st.sub_acq.stage or 'ok'))
                if st.sub_acq.stage in ('patch', 'patch-unpack', 'diff') and os.path.exists(subdir):
                    return R.violation('half-prepared-left', f'run {run_i}: the {st.sub_acq.stage} step failed but {os.path.relpath(subdir, root)} was left behind: '
                                       f'{sorted(os.listdir(subdir))}', f'half-prepared-left:{st.sub_acq.stage}', **base)
            # ---- policy: results of the dependency() calls
            if exp == ['UNDETERMINED']:
                add(probes, 'undetermined-world')
                model_world = DR.world_after(model_world, st)
                break
            if not is_download:
                got: T.List[T.Any] = []
                for m in DEP_RE.finditer(out):
                    got.append((m.group(2) == 'true', m.group(3), None if m.group(4) == 'n/a' else m.group(4)))
                if v['rc'] != 0:
                    got.append('ERROR')
                if exp and exp[-1] == 'EITHER':
                    # an unverifiable local archive failed to unpack: error or not-found, both accepted
                    k = len(exp) - 1
                    if len(got) > k and (got[k] == 'ERROR' or (not isinstance(got[k], str) and got[k][0] is False)):
                        got = got[:k] + ['EITHER']
                if [list(g) if not isinstance(g, str) else g for g in got] != [list(e) if not isinstance(e, str) else e for e in exp]:
                    i = next((k for k in range(max(len(got), len(exp))) if k >= len(got) or k >= len(exp) or
                              (list(got[k]) if not isinstance(got[k], str) else got[k]) != (list(exp[k]) if not isinstance(exp[k], str) else exp[k])), 0)
                    call = w['calls'][i] if i < len(w['calls']) else None
                    return R.violation('policy', f'run {run_i}: dependency() call {i + 1} {json.dumps(call)} with sys={w.get("sys")} wrap_mode={w.get("wrap_mode")} '
                                       f'force_fallback_for={w.get("fff")} sub={self.sub_brief(model_world.get("sub"))}: meson gives {got[i] if i < len(got) else "nothing"}, '
                                       f'documented policy gives {exp[i] if i < len(exp) else "nothing"}; all got={got} expected={exp}',
                                       self.policy_sig(call, got, exp, i), **base)
                # requests the model predicts vs made (no needless or missing fetches)
                if st.requests != per_url:
                    return R.violation('fetch-mismatch', f'run {run_i}: requests made {per_url}, procedure predicts {st.requests}', 'fetch-mismatch', **base)
            keyparts.append([[list(e) if not isinstance(e, str) else e for e in exp], st.sub_acq.stage if st.sub_acq else None, sorted(v['faults'])])
            summaries.append({'run': run_i, 'results': [list(e) if not isinstance(e, str) else e for e in exp], 'requests': per_url, 'backoff_s': v['sim_time']})
            if st.sub_state is not None or v['faults'] or len(w['calls']) >= 2:
                nontrivial = True
            model_world = DR.world_after(model_world, st)
        return R.ok(faults=faults, probes=probes, sim_time=sim_time, nontrivial=nontrivial, distinct_key=prng.short(keyparts),
                    interleavings=[prng.short(keyparts)], summary=summaries, trace_digest=prng.digest(summaries))

    @staticmethod
    def sub_brief(sub: T.Optional[T.Dict[str, T.Any]]) -> str:
        if sub is None:
            return 'none'
        return json.dumps({k: sub[k] for k in ('kind', 'version', 'provides', 'configures', 'wrapfile') if k in sub} | {'provide': sub['wrap'].get('provide')})

    @staticmethod
    def policy_sig(call: T.Any, got: T.List[T.Any], exp: T.List[T.Any], i: int) -> str:
        g = got[i] if i < len(got) else None
        e = exp[i] if i < len(exp) else None
        def brief(x: T.Any) -> str:
            if x is None:
                return 'none'
            if isinstance(x, str):
                return x
            return f'{x[1]}'
        return f'policy:{brief(e)}->{brief(g)}'

    # ------------------------------------------------------------------ shrinking
    def shrink(self, sc: T.Dict[str, T.Any]) -> T.Iterator[T.Dict[str, T.Any]]:
        if len(sc['calls']) > 1:
            for i in range(len(sc['calls'])):
                c = copy.deepcopy(sc)
                del c['calls'][i]
                yield c
        for url in list(sc.get('net', {})):
            c = copy.deepcopy(sc)
            del c['net'][url]
            yield c
            if len(sc['net'][url]) > 1:
                c = copy.deepcopy(sc)
                c['net'][url] = c['net'][url][:1]
                yield c
        for i in range(len(sc.get('pre', []))):
            c = copy.deepcopy(sc)
            del c['pre'][i]
            yield c
        if sc.get('fff'):
            c = copy.deepcopy(sc)
            c['fff'] = []
            yield c
        if sc.get('wrap_mode') != 'default':
            c = copy.deepcopy(sc)
            c['wrap_mode'] = 'default'
            yield c
        if sc.get('sys'):
            c = copy.deepcopy(sc)
            c['sys'] = None
            yield c
        sub = sc.get('sub')
        if sub is not None:
            c = copy.deepcopy(sc)
            c['sub'] = None
            yield c
            wr = sub.get('wrap') or {}
            for key in ('patch', 'diff'):
                if wr.get(key) is not None:
                    c = copy.deepcopy(sc)
                    c['sub']['wrap'][key] = None
                    if key == 'patch':
                        c['sub']['wrap']['upstream_has_buildfile'] = True
                    yield c
            if sub['kind'] == 'wrap':
                if wr['source'].get('cache', 'none') != 'none':
                    c = copy.deepcopy(sc)
                    c['sub']['wrap']['source']['cache'] = 'none'
                    yield c
                if wr['source'].get('fallback_url'):
                    c = copy.deepcopy(sc)
                    c['sub']['wrap']['source']['fallback_url'] = False
                    yield c
            if not sub.get('configures', True):
                c = copy.deepcopy(sc)
                c['sub']['configures'] = True
                yield c
        for i, call in enumerate(sc['calls']):
            for key in ('version', 'fallback', 'allow_fallback'):
                if call.get(key) is not None:
                    c = copy.deepcopy(sc)
                    c['calls'][i].pop(key)
                    yield c


CHECK = Check()
