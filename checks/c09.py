"""C09 - a killed meson command never bricks the build directory.

The command under test runs as a real process under an LD_PRELOAD interposer
that numbers every file-system mutation it issues beneath the scratch root and
kills it (SIGKILL) at mutation k - before the call, or after half of a write
(torn).  Every k of the command is enumerated (thorough) on seeded directory
histories; after each kill the documented recovery (`meson setup`, with
`--reconfigure` when coredata.dat exists) must succeed and every option must
have its value from before the command or the value the command was setting.
"""
from __future__ import annotations

import copy
import json
import os
import random
import re
import shutil
import subprocess
import typing as T

from sim.core import env as E
from sim.core import prng
from sim.core import runner as R
from sim.core import mesonrun as M
from sim.core import findings as F
from sim.core.forkrun import forkrun, ChildTimeout, ChildCrashed
from . import optproj as P

SHIM = os.path.join(E.VERIF_DIR, 'build', 'vshim.so')
STUB_NINJA_DIR = os.path.join(E.VERIF_DIR, 'sim', 'ninja', 'stub')
OPT_RE = re.compile(r'^(?:[\w.-]+\| )?Message: OPT ([^=]+)=(.*)$')
STATE_FILES = ('coredata.dat', 'coredata.dat~', 'coredata.dat.prev', 'build.dat', 'cmd_line.txt', 'build.ninja', 'build.ninja~',
               'meson.lock', 'install.dat', 'meson_test_setup.dat', 'meson_benchmark_setup.dat')


def child_env() -> T.Dict[str, str]:
    env = M.clean_env()
    env['PATH'] = STUB_NINJA_DIR + os.pathsep + env['PATH']
    return env


def opt_lines(text: str) -> T.Dict[str, str]:
    out: T.Dict[str, str] = {}
    for line in text.splitlines():
        m = OPT_RE.match(line.strip())
        if m:
            out[m.group(1)] = m.group(2)
    return out


class Check:
    id = 'C09'
    level = 'fault_enumeration'
    quick_n = 64
    thorough_budget_s = 1200
    scenario_wall_limit = 1500.0
    shrink_runs = 60
    shrink_wall_s = 400.0
    rule = ('scenario = generated option project (top + subproject; in a third of the families a --native-file sets some of the options) + a seeded history of successful lifecycle commands + one '
            'mutating command under test (first setup / setup --reconfigure [-D] / setup --wipe / configure -D / configure -U), '
            'killed at file-system mutation point k (and, for write calls, after half of the data). thorough: every k of the '
            'command (chunks k mod m across scenarios); quick: every point touching a state file or that is a rename/unlink/rmdir, '
            'plus a seeded sample of the rest. A kill point counts as non-trivial when it lands after the first and before the '
            'last mutation and the corpse differs from both the pre- and the post-state; distinct by '
            '(command kind, file touched at the kill point, operation, torn?).')
    interleaving_measure = 'distinct (command kind, relative path, operation, torn) kill points reached'
    engine_desc = {
        'real': ['the interrupted command: a real `python meson.py ...` process (msetup, mconf, coredata.save, cmdline, backends) killed by SIGKILL at a real libc call',
                 'recovery and read-back: msetup / coredata.load / interpreter of the tree, in a forked child'],
        'stub': ['`ninja` binary (answers --version, -t compdb/restat/cleandead only)', 'kill instants chosen by the LD_PRELOAD shim sim/crash/shim.c'],
    }
    assumptions = [
        'crash model is process kill: every completed libc call is on disk (page cache survives), user-space buffers are lost; power-loss reordering is not modelled',
        'only the main meson process is interrupted; its helper children run to completion',
        'recovery is what meson itself suggests: `meson setup --reconfigure` if meson-private/coredata.dat exists, else `meson setup`, with no -D arguments',
    ]

    def prepare(self, tier: str) -> None:
        M.warm()
        if not os.path.exists(SHIM):
            subprocess.run([os.path.join(E.VERIF_DIR, 'setup.sh')], check=True, capture_output=True)

    # ------------------------------------------------------------------ generation
    def generate(self, rng: random.Random, tier: str, index: int) -> T.Dict[str, T.Any]:
        m = 4 if tier == 'quick' else 8
        fam = index // m
        frng = prng.derive(prng.base_seed(), 'C09', tier, 'family', fam)
        spec = P.gen_spec(frng)
        spec['backend'] = 'ninja' if frng.random() < 0.3 else 'none'
        spec['ct'] = spec['backend'] == 'ninja'
        cmd_kind = ['setup', 'reconfigure', 'wipe', 'configure', 'configure-U', 'reconfigure-edit', 'setup-again', 'clearcache'][fam % 8] if tier == 'quick' \
            else frng.choice(['setup', 'reconfigure', 'reconfigure', 'wipe', 'wipe', 'configure', 'configure', 'configure-U', 'reconfigure-edit',
                              'setup-again', 'clearcache'])
        hist: T.List[T.Dict[str, T.Any]] = []
        if frng.random() < 0.35:
            # some option values come from a machine file given to the first setup: they are part of what the
            # directory records (cmd_line.txt [properties], coredata.config_files) and must survive a kill as well
            nat: T.Dict[str, T.Any] = {'project': {}, 'builtin': {}}
            for o in frng.sample(spec['top'], min(len(spec['top']), frng.randint(1, 2))):
                if o['type'] in ('string', 'boolean', 'integer', 'combo') and not o.get('yield'):
                    nat['project'][o['name']] = P.draw_value(frng, o, True)
            if frng.random() < 0.6:
                nat['builtin']['warning_level'] = frng.choice(['0', '2', '3'])
            if nat['project'] or nat['builtin']:
                spec['native'] = nat
        work = copy.deepcopy(spec)
        if cmd_kind != 'setup':
            hist.append({'op': 'setup', 'D': P.draw_assignments(frng, work, frng.randint(0, 3))})
            if (fam // 8) % 2 == 1 if tier == 'quick' else frng.random() < 0.4:
                # a default is edited after the first setup: the directory now holds a value (the old default)
                # that only coredata.dat remembers - what a lost or truncated coredata.dat cannot be re-derived from
                cands = [o for o in work['top'] if o['type'] in ('string', 'boolean', 'integer', 'combo') and not o.get('yield')
                         and o['name'] not in hist[0]['D']]
                for o in cands[:1]:
                    nv = next((v for v in (P.draw_value(frng, o, True) for _ in range(8)) if v != o['value']), None)
                    if nv is not None:
                        ed = {'where': 'top', 'kind': 'default', 'name': o['name'], 'value': nv}
                        P.apply_edit(work, ed)
                        hist.append({'op': 'edit', 'edit': ed})
                        hist.append({'op': 'reconfigure', 'D': {}})
            for _ in range(frng.choice([0, 1, 1, 2])):
                k = frng.choice(['configure', 'reconfigure', 'edit', 'edit', 'configure-U'])
                if k == 'configure':
                    d = P.draw_assignments(frng, work, frng.randint(1, 2))
                    if d:
                        hist.append({'op': 'configure', 'D': d})
                elif k == 'configure-U' and work.get('sub') is not None:
                    key = f'{P.SUB}:' + frng.choice(P.SUB_OVERRIDABLE)
                    hist.append({'op': 'configure', 'D': {key: frng.choice(P.BUILTINS[key.split(":")[1]])}})
                    hist.append({'op': 'configure', 'U': [key]})
                elif k == 'reconfigure':
                    hist.append({'op': 'reconfigure', 'D': P.draw_assignments(frng, work, frng.randint(0, 2))})
                elif k == 'edit':
                    # prefer an edit of a default: afterwards the directory holds a value (the old default) that
                    # nothing but coredata.dat remembers - the state a lost coredata.dat cannot be re-derived from
                    ed = None
                    for _ in range(6):
                        cand = P.draw_edit(frng, work)
                        if cand is not None and cand['kind'] == 'default':
                            ed = cand
                            break
                        if cand is not None and cand['kind'] == 'add' and ed is None:
                            ed = cand
                    if ed is not None and ed['kind'] in ('add', 'default'):
                        P.apply_edit(work, ed)
                        hist.append({'op': 'edit', 'edit': ed})
                        hist.append({'op': 'reconfigure', 'D': {}})
        if cmd_kind == 'setup':
            cmd = {'op': 'setup', 'D': P.draw_assignments(frng, work, frng.randint(0, 3))}
        elif cmd_kind == 'reconfigure':
            cmd = {'op': 'reconfigure', 'D': P.draw_assignments(frng, work, frng.randint(0, 3))}
        elif cmd_kind == 'reconfigure-edit':
            ed = None
            for _ in range(5):
                ed = P.draw_edit(frng, work)
                if ed is not None and ed['kind'] in ('add', 'default', 'remove'):
                    break
                ed = None
            if ed is not None:
                P.apply_edit(work, ed)
                hist.append({'op': 'edit', 'edit': ed})
            cmd = {'op': 'reconfigure', 'D': P.draw_assignments(frng, work, frng.randint(0, 2))}
        elif cmd_kind == 'wipe':
            cmd = {'op': 'wipe'}
        elif cmd_kind == 'setup-again':
            cmd = {'op': 'setup-again', 'D': P.draw_assignments(frng, work, frng.randint(1, 2)) or {'s': 'again'}}
        elif cmd_kind == 'clearcache':
            cmd = frng.choice([{'op': 'configure', 'D': {}, 'clearcache': True}, {'op': 'reconfigure', 'D': P.draw_assignments(frng, work, 1), 'clearcache': True}])
        elif cmd_kind == 'configure-U' and work.get('sub') is not None:
            key = f'{P.SUB}:' + frng.choice(P.SUB_OVERRIDABLE)
            hist.append({'op': 'configure', 'D': {key: frng.choice(P.BUILTINS[key.split(":")[1]])}})
            cmd = {'op': 'configure', 'U': [key], 'D': P.draw_assignments(frng, work, frng.randint(0, 1))}
        else:
            d = P.draw_assignments(frng, work, frng.randint(1, 3)) or {'s': 'fallback'}
            cmd = {'op': 'configure', 'D': d}
        select = {'mode': 'interesting' if tier == 'quick' else 'all', 'mod': m, 'rem': index % m, 'torn': True,
                  'sample': 6 if tier == 'quick' else 0, 'sample_seed': frng.randrange(1 << 30)}
        return {'kind': 'c09', 'spec': spec, 'history': hist, 'command': cmd, 'select': select}

    # ------------------------------------------------------------------ helpers
    def argv_for(self, step: T.Dict[str, T.Any], spec: T.Dict[str, T.Any], bd: str, sd: str, first: bool) -> T.List[str]:
        op = step['op']
        d = P.d_args(step.get('D') or {})
        if op == 'setup':
            nf = ['--native-file', os.path.join(os.path.dirname(bd), 'native.ini')] if spec.get('native') else []
            return ['setup', f"--backend={spec.get('backend', 'none')}"] + nf + [bd, sd] + d
        if op == 'reconfigure':
            return ['setup', '--reconfigure', bd, sd] + d + (['--clearcache'] if step.get('clearcache') else [])
        if op == 'setup-again':
            # `meson setup` with -D on an already configured directory behaves like `meson configure`
            return ['setup', bd, sd] + d
        if op == 'wipe':
            return ['setup', '--wipe', bd, sd]
        if op == 'configure':
            return ['configure', bd] + d + [f'-U{k}' for k in step.get('U') or []] + (['--clearcache'] if step.get('clearcache') else [])
        raise AssertionError(op)

    def observe(self, root: str, bd: str, sd: str, tag: str) -> T.Tuple[int, T.Dict[str, str], str]:
        """Effective option values = what a no-argument reconfigure reports (get_option() lines) plus
        project/built-in values from `introspect --buildoptions` (reads coredata.dat)."""
        if os.path.exists(os.path.join(bd, 'meson-private', 'coredata.dat')):
            args = ['setup', '--reconfigure', bd, sd]
        else:
            args = ['setup', bd, sd]
        r = M.meson(args, capture=os.path.join(root, f'obs-{tag}.log'), env=child_env(), timeout=120)
        rc = r['value'] if r['ok'] else 99
        text = r['out'] + ('' if r['ok'] else '\n' + str(r['exc']))
        vals = opt_lines(r['out'])
        if rc == 0:
            ri = M.meson(['introspect', '--buildoptions', bd], capture=os.path.join(root, f'intro-{tag}.log'), env=child_env(), timeout=60)
            if ri['ok'] and ri['value'] == 0:
                try:
                    bo = P.parse_buildoptions(ri['out'])
                    for k in ('backend',):
                        if k in bo:
                            vals['builtin:' + k] = str(bo[k])
                except Exception:
                    rc = 98
                    text += '\nintrospect output unparsable: ' + ri['out'][-500:]
            else:
                rc = 97
                text += '\nintrospect failed: ' + (ri['out'][-800:] if ri['ok'] else str(ri['exc']))
        return rc, vals, text

    @staticmethod
    def unreadable_state(root: str, bd: str) -> T.List[str]:
        """Pickled state the recovered directory refers to - the fixed-name files and the meson_exe_*.dat wrappers build.ninja
        names - that does not load ("no state file is left unreadable").  Leftovers nothing refers to are not judged."""
        priv = os.path.join(bd, 'meson-private')
        names = [n for n in ('coredata.dat', 'build.dat', 'install.dat', 'meson_test_setup.dat', 'meson_benchmark_setup.dat') if os.path.exists(os.path.join(priv, n))]
        bn = os.path.join(bd, 'build.ninja')
        if os.path.exists(bn):
            with open(bn, errors='replace') as f:
                names += sorted(set(re.findall(r'meson-private/(meson_exe_[^ $\n]*?\.dat)', f.read())))

        def load_all() -> T.List[str]:
            import pickle
            bad = []
            for n_ in names:
                try:
                    with open(os.path.join(priv, n_), 'rb') as fh:
                        pickle.load(fh)
                except Exception as e:
                    bad.append(f'{n_}: {type(e).__name__}')
            return bad
        r = forkrun(load_all, capture=os.path.join(root, 'unpickle.log'), timeout=60, env=child_env())
        if not r['ok']:
            return ['<could not check: ' + str(r['exc'])[-200:] + '>']
        return list(r['value'])

    @staticmethod
    def history_meson(root: str, argv: T.List[str], capture: str) -> T.Dict[str, T.Any]:
        """A history step. What it leaves on disk (pickles) is compared byte-wise with what the processes under the
        crash shim write, and those always run with PYTHONHASHSEED=0: a forked child would carry the harness
        interpreter's hash seed instead, so it is only used when that is 0 too."""
        if os.environ.get('PYTHONHASHSEED') == '0':
            return M.meson(argv, capture=capture, env=child_env(), timeout=120)
        cp = subprocess.run([E.PYTHON, E.meson_py()] + argv, env=child_env(), capture_output=True, text=True, timeout=300,
                            cwd=root, errors='backslashreplace')
        with open(capture, 'w') as f:
            f.write(cp.stdout + cp.stderr)
        return {'ok': True, 'value': cp.returncode, 'out': cp.stdout + cp.stderr, 'exc': None, 'exc_type': None, 'exc_in_sut': False}

    @staticmethod
    def restore(pre: T.Optional[str], bd: str) -> None:
        shutil.rmtree(bd, ignore_errors=True)
        if pre is not None:
            shutil.copytree(pre, bd, symlinks=True)

    def exec_cmd(self, root: str, argv: T.List[str], crash_at: T.Optional[int], torn: bool, trace: T.Optional[str]) -> subprocess.CompletedProcess:
        env = child_env()
        env.update({'LD_PRELOAD': SHIM, 'VSHIM_ROOT': root})
        if trace:
            env['VSHIM_TRACE'] = trace
        if crash_at is not None:
            env['VSHIM_CRASH_AT'] = str(crash_at)
            if torn:
                env['VSHIM_TORN'] = '1'
        return subprocess.run([E.PYTHON, E.meson_py()] + argv, env=env, capture_output=True, text=True, timeout=300,
                              cwd=root, errors='backslashreplace')

    @staticmethod
    def read_trace(path: str, root: str) -> T.List[T.Dict[str, T.Any]]:
        pts = []
        if not os.path.exists(path):
            return pts
        with open(path, errors='replace') as f:
            for line in f:
                parts = line.rstrip('\n').split('\t')
                if len(parts) < 5:
                    continue
                p1 = parts[2]
                rel = os.path.relpath(p1, root) if p1.startswith(root) else p1
                rel2 = os.path.relpath(parts[3], root) if parts[3].startswith(root) else parts[3]
                pts.append({'k': int(parts[0]), 'op': parts[1], 'path': rel, 'path2': rel2, 'n': int(parts[4])})
        return pts

    @staticmethod
    def norm(rel: str) -> str:
        rel = re.sub(r'tmp[a-z0-9_]{6,}', 'tmpXXXX', rel)
        # the wrapper's name carries a digest of a command line that contains the (per-run) scratch path
        rel = re.sub(r'(meson_exe_[^/ ]*?_)[0-9a-f]{40}(\.dat)', r'\1<HASH>\2', rel)
        return rel

    @staticmethod
    def dir_digest(d: str) -> str:
        items = []
        for dp, dn, fn in os.walk(d):
            dn.sort()
            for f in sorted(fn):
                p = os.path.join(dp, f)
                rel = os.path.relpath(p, d)
                if rel.startswith('meson-logs'):
                    continue
                try:
                    with open(p, 'rb') as fh:
                        items.append((rel, prng.hashlib.sha256(fh.read()).hexdigest()))
                except OSError:
                    items.append((rel, 'unreadable'))
        return prng.digest(items)

    # ------------------------------------------------------------------ execution
    def run(self, sc: T.Dict[str, T.Any]) -> T.Dict[str, T.Any]:
        root = E.mkscratch('c09')
        try:
            return self._run(sc, os.path.realpath(root))
        except (ChildTimeout, subprocess.TimeoutExpired) as e:
            return R.violation('hang-wall', f'a meson process exceeded the wall limit: {e}'[:1500], 'hang-wall')
        except ChildCrashed as e:
            return R.harness_error(f'child crashed: {e}')
        finally:
            E.rmscratch(root)

    def _run(self, sc: T.Dict[str, T.Any], root: str) -> T.Dict[str, T.Any]:
        spec = copy.deepcopy(sc['spec'])
        sd = os.path.join(root, 'src')
        bd = os.path.join(root, 'bd')
        P.render(spec, sd)
        if spec.get('native'):
            with open(os.path.join(root, 'native.ini'), 'w', encoding='utf-8') as f:
                if spec['native'].get('project'):
                    f.write('[project options]\n' + ''.join(f'{k} = {P.lit(v)}\n' for k, v in spec['native']['project'].items()))
                if spec['native'].get('builtin'):
                    f.write('[built-in options]\n' + ''.join(f'{k} = {P.lit(v)}\n' for k, v in spec['native']['builtin'].items()))
        probes: T.Dict[str, int] = {}
        faults: T.Dict[str, int] = {}

        def add(d: T.Dict[str, int], k: str, n: int = 1) -> None:
            d[k] = d.get(k, 0) + n
        # ---- history
        for hi, st in enumerate(sc['history']):
            if st['op'] == 'edit':
                P.apply_edit(spec, st['edit'])
                P.write_edit(spec, sd, st['edit']['where'])
                continue
            argv = self.argv_for(st, spec, bd, sd, hi == 0)
            r = self.history_meson(root, argv, os.path.join(root, f'hist-{hi}.log'))
            if not r['ok'] or r['value'] != 0:
                if not os.environ.get('VERIF_C09_TOLERATE_SKIPS'):
                    # every history is a sequence of valid commands: looking away here would hide a generator bug or a broken command
                    return R.harness_error(f'history step {st} of a generated scenario failed: ' + (r['out'] or str(r.get('exc')))[-1500:])
                add(probes, 'history-step-failed')
                return R.ok(nontrivial=False, probes=probes, faults=faults, summary={'skipped': 'history step failed', 'step': st,
                                                                                   'out': (r['out'] or str(r.get('exc')))[-400:]})
        cmd = sc['command']
        argv = self.argv_for(cmd, spec, bd, sd, not sc['history'])
        configured = os.path.exists(os.path.join(bd, 'meson-private', 'coredata.dat'))
        pre: T.Optional[str] = None
        if os.path.isdir(bd):
            pre = os.path.join(root, 'pre_bd')
            shutil.copytree(bd, pre, symlinks=True)
        # ---- values before
        if configured:
            rc, pre_vals, text = self.observe(root, bd, sd, 'pre')
        else:
            tmpb = os.path.join(root, 'defaults_bd')
            rc, pre_vals, text = self.observe(root, tmpb, sd, 'pre')
            shutil.rmtree(tmpb, ignore_errors=True)
        if rc != 0:
            add(probes, 'pre-observation-failed')
            return R.ok(nontrivial=False, probes=probes, faults=faults, summary={'skipped': 'pre-state does not reconfigure', 'out': text[-400:]})
        pre_digest = self.dir_digest(pre) if pre else 'none'
        # ---- counting run
        self.restore(pre, bd)
        tr = os.path.join(root, 'trace.txt')
        cp = self.exec_cmd(root, argv, None, False, tr)
        if cp.returncode != 0:
            if not os.environ.get('VERIF_C09_TOLERATE_SKIPS'):
                return R.harness_error(f'the command under test {argv[:3]} fails when it is not interrupted: ' + (cp.stdout + cp.stderr)[-1500:])
            add(probes, 'command-fails-uninterrupted')
            return R.ok(nontrivial=False, probes=probes, faults=faults, summary={'skipped': 'command under test fails when not interrupted', 'argv': argv,
                                                                               'out': (cp.stdout + cp.stderr)[-500:]})
        points = self.read_trace(tr, root)
        n = len(points)
        post_digest = self.dir_digest(bd)
        rc, post_vals, text = self.observe(root, bd, sd, 'post')
        if rc != 0:
            return R.violation('post-state-broken', f'after the *completed* command {argv[:2]} a plain reconfigure fails: {text[-800:]}', 'post-state-broken')
        sel = sc['select']
        if sel.get('rem', 0) == 0 and sel['mode'] not in ('match', 'pathre'):
            # determinism of the numbering
            self.restore(pre, bd)
            tr2 = os.path.join(root, 'trace2.txt')
            self.exec_cmd(root, argv, None, False, tr2)
            p2 = self.read_trace(tr2, root)
            a = [(p['op'], self.norm(p['path'])) for p in points]
            b = [(p['op'], self.norm(p['path'])) for p in p2]
            if a != b:
                return R.harness_error(f'mutation numbering is not deterministic: {len(a)} vs {len(b)} points; first difference at '
                                       f'{next((i for i, (x, y) in enumerate(zip(a, b)) if x != y), min(len(a), len(b)))}')
            add(probes, 'numbering-checked')
        # ---- choose kill points
        chosen: T.List[T.Tuple[int, bool]] = []
        if sel['mode'] == 'match':
            want = sel['match']
            hits = [p for p in points if p['op'] == want['op'] and self.norm(p['path']) == want['path']]
            if hits:
                p = hits[min(want.get('nth', 0), len(hits) - 1)]
                chosen = [(p['k'], bool(want.get('torn')))]
        elif sel['mode'] == 'pathre':
            rx = re.compile(sel['pathre'])
            for p in points:
                if rx.search(p['path']) or rx.search(p.get('path2') or ''):
                    chosen.append((p['k'], False))
                    if p['op'] in ('write', 'pwrite', 'writev', 'sendfile', 'copy_file_range') and p['n'] > 1:
                        chosen.append((p['k'], True))
        elif sel['mode'] == 'list':
            chosen = [(int(k), bool(t)) for k, t in sel['list'] if int(k) <= n]
        else:
            srng = random.Random(sel.get('sample_seed', 0))
            sample_ks = set(srng.sample(range(1, n + 1), min(n, sel.get('sample', 0) * sel['mod']))) if sel.get('sample') else set()
            for p in points:
                k = p['k']
                if k % sel['mod'] != sel['rem']:
                    continue
                base = os.path.basename(p['path'])
                interesting = base in STATE_FILES or base.endswith(('.ini', '.dat')) or p['path'].startswith(os.path.join('bd', 'meson-info')) \
                    or p['op'] in ('rename', 'unlink', 'rmdir', 'remove', 'open-trunc') or 'tmp' in p['path']
                if sel['mode'] == 'all' or interesting or k in sample_ks:
                    chosen.append((k, False))
                    if sel.get('torn') and p['op'] in ('write', 'pwrite', 'writev', 'sendfile', 'copy_file_range') and p['n'] > 1 \
                            and (sel['mode'] == 'all' or interesting):
                        if 'meson-log' not in p['path'] or k in sample_ks:
                            chosen.append((k, True))
        known = F.load()
        keys: T.List[str] = []
        first_new: T.Optional[T.Dict[str, T.Any]] = None
        first_known: T.Optional[T.Dict[str, T.Any]] = None
        known_sigs: T.List[str] = []
        nontrivial_pts = 0
        samples: T.List[T.Any] = []
        for (k, torn) in chosen:
            pt = points[k - 1]
            self.restore(pre, bd)
            cp = self.exec_cmd(root, argv, k, torn, None)
            add(faults, 'kill-torn-write' if torn else f"kill-before-{pt['op']}")
            if cp.returncode != -9:
                return R.harness_error(f'process under test was not killed at point {k} (rc={cp.returncode}): {(cp.stdout + cp.stderr)[-600:]}')
            corpse = self.dir_digest(bd) if os.path.isdir(bd) else 'none'
            occ = sum(1 for q in points[:k - 1] if q['op'] == pt['op'] and self.norm(q['path']) == self.norm(pt['path']))
            ptinfo = {'k': k, 'n': n, 'op': pt['op'], 'path': self.norm(pt['path']), 'nth': occ, 'torn': torn}
            key = f"{cmd['op']}|{self.norm(pt['path'])}|{pt['op']}|{int(torn)}"
            if 1 < k <= n and corpse not in (pre_digest, post_digest):
                keys.append(key)
                nontrivial_pts += 1
            # ---- recovery, exactly what meson tells the user to do
            rc1, vals1, text1 = self.observe(root, bd, sd, f'rec-{k}-{int(torn)}')
            v: T.Optional[T.Dict[str, T.Any]] = None
            where = f"cmd={cmd['op']} file={self.norm(pt['path'])} op={pt['op']}" + (' torn' if torn else '')
            if rc1 != 0 or 'Traceback (most recent call last)' in text1:
                tail = text1.strip().splitlines()[-12:]
                v = R.violation('brick', f'killed `meson {" ".join(argv[:2])}` at mutation {k}/{n} ({pt["op"]} {pt["path"]}{" torn" if torn else ""}); '
                                f'recovery `meson setup{" --reconfigure" if os.path.exists(os.path.join(bd, "meson-private", "coredata.dat")) else ""}` '
                                f'failed (rc={rc1}): ' + ' | '.join(tail)[-900:], f'brick {where}', point=ptinfo)
            else:
                bad = {}
                for name, val in vals1.items():
                    allowed = {pre_vals.get(name), post_vals.get(name)}
                    if val not in allowed:
                        bad[name] = {'got': val, 'before': pre_vals.get(name), 'command_sets': post_vals.get(name)}
                missing = [nm for nm in post_vals if nm in pre_vals and nm not in vals1]
                if bad or missing:
                    v = R.violation('lost-value', f'killed `meson {" ".join(argv[:2])}` at mutation {k}/{n} ({pt["op"]} {pt["path"]}{" torn" if torn else ""}); '
                                    f'after recovery options have neither the old nor the new value: {json.dumps(bad, sort_keys=True)[:700]} missing={missing}',
                                    f'lost-value {where}', point=ptinfo)
                elif self.unreadable_state(root, bd):
                    v = R.violation('unreadable-state', f'killed `meson {" ".join(argv[:2])}` at mutation {k}/{n} ({pt["op"]} {pt["path"]}{" torn" if torn else ""}); '
                                    f'the recovery run succeeded but left state files it refers to unreadable: {self.unreadable_state(root, bd)}',
                                    f'unreadable-state {where}', point=ptinfo)
                else:
                    rc2, vals2, text2 = self.observe(root, bd, sd, f'rec2-{k}-{int(torn)}')
                    if rc2 != 0 or vals2 != vals1:
                        v = R.violation('unstable-recovery', f'killed at {k}/{n} ({pt["op"]} {pt["path"]}); second reconfigure rc={rc2}, values changed: '
                                        f'{ {a: (vals1.get(a), vals2.get(a)) for a in set(vals1) | set(vals2) if vals1.get(a) != vals2.get(a)} } {text2[-300:]}',
                                        f'unstable-recovery {where}', point=ptinfo)
            if len(samples) < 2:
                samples.append({'argv': argv[:3], 'kill': ptinfo, 'recovery_rc': rc1})
            if v is not None:
                kf = F.match(known, self.id, v['signature'])
                if kf is None:
                    if first_new is None:
                        first_new = v
                        break
                else:
                    known_sigs.append(v['signature'])
                    if first_known is None:
                        first_known = v
        base = dict(faults=faults, probes=probes, distinct_keys=sorted(set(keys)), interleavings=sorted(set(keys)),
                    nontrivial=nontrivial_pts > 0, distinct_key=prng.short(sorted(set(keys))),
                    sim_time=0.0, steps=len(chosen))
        add(probes, 'kill-points-executed', len(chosen))
        add(probes, 'mutation-points-seen', n if sel.get('rem', 0) == 0 else 0)
        if first_new is not None:
            first_new.update(base)
            first_new['extra_known'] = sorted(set(known_sigs))
            return first_new
        if first_known is not None:
            first_known.update(base)
            first_known['extra_known'] = sorted(set(known_sigs))
            return first_known
        return R.ok(summary={'argv': argv[:3], 'history': [h['op'] for h in sc['history']], 'points': n, 'killed_at': [c[0] for c in chosen][:20],
                             'samples': samples}, **base)

    # ------------------------------------------------------------------ shrinking
    def shrink(self, sc: T.Dict[str, T.Any]) -> T.Iterator[T.Dict[str, T.Any]]:
        return iter(())

    def shrink_from(self, sc: T.Dict[str, T.Any], out: T.Dict[str, T.Any]) -> T.Iterator[T.Dict[str, T.Any]]:
        """Shrinking is driven by the failing kill point: pin it semantically
        (operation, path, occurrence), then drop history steps / assignments / options."""
        pt = out.get('point')
        base = copy.deepcopy(sc)
        if pt and sc['select']['mode'] != 'match':
            base['select'] = {'mode': 'match', 'match': {'op': pt['op'], 'path': pt['path'], 'nth': pt['nth'], 'torn': pt['torn']}}
            yield copy.deepcopy(base)
        if base['select']['mode'] != 'match':
            return
        if base['select']['match'].get('nth', 0) > 0:
            c = copy.deepcopy(base)
            c['select']['match']['nth'] = 0
            yield c
        hist = base['history']
        for i in range(len(hist) - 1, 0, -1):
            c = copy.deepcopy(base)
            del c['history'][i]
            yield c
        for i, st in enumerate(hist):
            for key in list((st.get('D') or {}).keys()):
                c = copy.deepcopy(base)
                del c['history'][i]['D'][key]
                yield c
        for key in list((base['command'].get('D') or {}).keys()):
            if base['command']['op'] == 'configure' and len(base['command'].get('D') or {}) + len(base['command'].get('U') or []) <= 1:
                break
            c = copy.deepcopy(base)
            del c['command']['D'][key]
            yield c
        if base['spec'].get('backend') == 'ninja':
            c = copy.deepcopy(base)
            c['spec']['backend'] = 'none'
            yield c
        for side in ('top', 'sub'):
            lst = base['spec'].get(side)
            if not lst:
                continue
            used = json.dumps([base['history'], base['command']])
            for i, o in enumerate(lst):
                nm = o['name'] if side == 'top' else f"{P.SUB}:{o['name']}"
                if f'"{nm}"' in used or (o['name'] == 'yy'):
                    continue
                c = copy.deepcopy(base)
                del c['spec'][side][i]
                yield c
        if base['spec'].get('sub') is not None and P.SUB + ':' not in json.dumps([base['history'], base['command']]):
            c = copy.deepcopy(base)
            c['spec']['sub'] = None
            yield c
        for key in ('top_defaults', 'sub_defaults'):
            if base['spec'].get(key):
                c = copy.deepcopy(base)
                c['spec'][key] = []
                yield c


CHECK = Check()
