"""C05 - the build graph is dependency-complete: any valid schedule builds the same thing.

Real `meson setup` (ninja backend) on generated C projects; the generated
build.ninja is executed by the reference executor whose ready-set choice is
the simulator's (seeded random and adversarial policies), and every edge is
replayed hermetically: only configure-time files plus the declared outputs of
its ancestors are present.
"""
from __future__ import annotations

import copy
import os
import random
import shutil
import typing as T

from sim.core import env as E
from sim.core import prng
from sim.core import runner as R
from sim.core import mesonrun as M
from sim.core.forkrun import ChildTimeout, ChildCrashed
from sim.ninja.manifest import Manifest, ManifestError
from sim.ninja import executor as X
from . import c05gen as G

STUB_NINJA_DIR = os.path.join(E.VERIF_DIR, 'sim', 'ninja', 'stub')


def build_env() -> T.Dict[str, str]:
    env = M.clean_env()
    env['PATH'] = STUB_NINJA_DIR + os.pathsep + env['PATH']
    env['LC_ALL'] = 'C.UTF-8'
    return env


class Check:
    id = 'C05'
    level = 'exploration'
    quick_n = 32
    thorough_budget_s = 1200
    scenario_wall_limit = 900.0
    shrink_runs = 60
    shrink_wall_s = 500.0
    rule = ('scenario = generated C project (generated headers via custom_target incl. chains through other outputs, depends:, depend_files:, '
            'configure_file, multi-output custom targets indexed with [i], precompiled headers (c_pch:) that include generated headers, a generated linker version script handed over through link_depends:, generator() for sources and for headers that transitively linked consumers '
            'include from the private directory, static/shared/both libraries (also install: true) with link_with/link_whole, '
            'declare_dependency(sources:), a custom target running a built executable, subdirs, a subproject; default_library and unity varied) '
            'configured with the real ninja backend; the manifest is executed under several schedules (declaration order, reverse, '
            'consumers-first, generators-last, seeded random) and each edge is replayed hermetically. Non-trivial: the graph has >=1 generated '
            'input consumed by another edge and the schedule differs from declaration order, or a hermetic replay of an edge with >=1 hidden '
            'file. Distinct by (graph shape hash, schedule hash).')
    interleaving_measure = 'distinct (graph shape, execution order) pairs'
    engine_desc = {
        'real': ['meson setup with the ninja backend (ninjabackend.py, backends.py, build.py)', 'cc / ar / sh / python build steps'],
        'stub': ['ninja itself: sim/ninja (manifest reader + evaluator + executor written for this check; only --version/-t compdb are answered by a stub binary at configure time)'],
    }
    assumptions = [
        'build steps are atomic (outputs appear at completion): every serial topological order is a linearisation of some parallel schedule; partially written outputs visible to concurrently running steps are not modelled',
        'first builds only: depfile-discovered dependencies and restat are ignored',
        'edges in the console pool (test/install/dist/regenerate helpers) are not executed',
    ]

    def prepare(self, tier: str) -> None:
        M.warm()

    def corpus_list(self) -> T.List[str]:
        p = os.path.join(E.VERIF_DIR, 'checks', 'c05_corpus_ok.txt')
        if not os.path.exists(p):
            return []
        with open(p) as f:
            return [l.strip() for l in f if l.strip() and not l.startswith('#')]

    def generate(self, rng: random.Random, tier: str, index: int) -> T.Dict[str, T.Any]:
        corpus = self.corpus_list() if tier != 'quick' else []
        if corpus and rng.random() < 0.25:
            name = corpus[rng.randrange(len(corpus))]
            policies = ['reverse', 'consumers-first', 'generators-last', f'random:{rng.randrange(1 << 30)}']
            return {'kind': 'c05', 'corpus': name, 'policies': policies, 'hermetic': True}
        spec = G.gen_project(rng, 'small' if tier == 'quick' else rng.choice(['small', 'big']))
        policies = ['reverse', 'consumers-first', 'generators-last'] + [f'random:{rng.randrange(1 << 30)}' for _ in range(1 if tier == 'quick' else 3)]
        return {'kind': 'c05', 'spec': spec, 'policies': policies, 'hermetic': True}

    def run(self, sc: T.Dict[str, T.Any]) -> T.Dict[str, T.Any]:
        root = E.mkscratch('c05')
        try:
            return self._run(sc, os.path.realpath(root))
        except ChildTimeout as e:
            return R.harness_error(f'setup exceeded the wall limit: {e}'[:1500])
        except ChildCrashed as e:
            return R.harness_error(f'child crashed: {e}')
        finally:
            E.rmscratch(root)

    def configure(self, root: str, sc: T.Dict[str, T.Any]) -> T.Tuple[T.Optional[str], str]:
        sd = os.path.join(root, 'src')
        bd = os.path.join(root, 'bd')
        if sc.get('corpus'):
            # a project of the repository's own corpus, copied so that nothing is written into the repository
            shutil.copytree(os.path.join(E.repo_dir(), 'test cases', 'common', sc['corpus']), sd, symlinks=True)
        else:
            G.render(sc['spec'], sd)
        r = M.meson(['setup', bd, sd], capture=os.path.join(root, 'setup.log'), env=build_env(), timeout=300)
        if not r['ok'] or r['value'] != 0:
            return None, (r.get('exc') or r['out'])[-3000:]
        return bd, ''

    def _run(self, sc: T.Dict[str, T.Any], root: str) -> T.Dict[str, T.Any]:
        bd, err = self.configure(root, sc)
        probes: T.Dict[str, int] = {}
        faults: T.Dict[str, int] = {}

        def add(d: T.Dict[str, int], k: str, n: int = 1) -> None:
            d[k] = d.get(k, 0) + n
        if bd is None:
            if 'Traceback (most recent call last)' in err:
                return R.violation('sut-exception', 'meson setup crashed on a generated project: ' + err[-2000:], 'sut-exception:setup')
            if not sc.get('corpus'):
                return R.harness_error('a generated project does not configure: ' + err[-1500:])
            add(probes, 'project-does-not-configure')
            return R.ok(nontrivial=False, probes=probes, summary={'skipped': 'does not configure', 'why': err[-600:]})
        try:
            with open(os.path.join(bd, 'build.ninja'), encoding='utf-8') as f:
                m = Manifest.parse(f.read())
        except ManifestError as e:
            if 'dyndep' in str(e) or 'include' in str(e):
                add(probes, 'unsupported-manifest-feature')
                return R.ok(nontrivial=False, probes=probes, summary={'skipped': str(e)})
            return R.violation('unexecutable-graph', f'build.ninja cannot be loaded: {e}', 'unexecutable-graph:parse')
        problems = m.sanity(lambda p: os.path.lexists(os.path.join(bd, p)))   # lexists: library aliases are symlinks created at configure time
        if problems:
            return R.violation('unexecutable-graph', '; '.join(problems[:4]), 'unexecutable-graph:' + problems[0].split(':')[-1].strip().split(' ')[0])
        edges = m.wanted_edges()
        pristine = os.path.join(root, 'pristine')
        shutil.copytree(bd, pristine, symlinks=True)
        env = build_env()
        ex = X.Executor(m, bd, env)
        # ---- baseline: declaration order with everything present (admission test)
        base = ex.schedule(edges, 'declaration', random.Random(0))
        sim_steps = base.steps
        if not base.ok:
            # declaration order is itself a valid schedule: if the most forgiving order builds, an edge is missing
            X.restore_tree(pristine, bd)
            alt = ex.schedule(edges, 'producers-first', random.Random(0))
            sim_steps += alt.steps
            if alt.ok:
                fe = next((e for e in edges if e.idx == base.failed_edge), None)
                return R.violation('schedule-fails', f'schedule `declaration` (build statements in the order they are written) fails although the order '
                                   f'generators, compiles, links builds: {base.detail[-1200:]}', f'schedule-fails:{fe.rule if fe else "?"}:{self.out_kind(fe)}',
                                   faults={'schedule-declaration': 1, 'schedule-producers-first': 1}, probes=probes, steps=sim_steps,
                                   trace={'order': base.order})
            # ... or the producer of what the failing step needs is not even among the edges the default target reaches
            X.restore_tree(pristine, bd)
            every = m.wanted_edges([o for e in m.edges if ex.runnable(e) for o in e.outs if not o.startswith(('meson-internal__', 'meson-'))])
            alt = ex.schedule(every, 'producers-first', random.Random(0)) if len(every) > len(edges) else alt
            sim_steps += alt.steps
            if alt.ok:
                fe = next((e for e in edges if e.idx == base.failed_edge), None)
                missing = self.guess_missing(base.detail, m, fe) if fe is not None else None
                return R.violation('missing-dependency', f'the default target does not build in the order the statements are written, but everything builds once every '
                                   f'statement of the manifest is run generators first: {base.detail[-1000:]}'
                                   + (f' -- it reads {missing}, whose producer is not an ancestor of the step' if missing else ''),
                                   f'missing-dependency:{fe.rule if fe else "?"}:{self.out_kind(fe)}',
                                   faults={'schedule-declaration': 1, 'schedule-producers-first': 1}, probes=probes, steps=sim_steps)
            add(probes, 'baseline-build-fails')
            return R.ok(nontrivial=False, probes=probes, steps=sim_steps, summary={'skipped': 'baseline schedule does not build', 'why': base.detail[-600:]})
        full = os.path.join(root, 'full')
        shutil.copytree(bd, full, symlinks=True)
        runnable = [e for e in edges if ex.runnable(e)]
        gen_consumed = sum(1 for e in runnable if any(i in m.producer and ex.runnable(m.producer[i]) for i in e.all_ins))
        shape = prng.short(sorted((e.rule, len(e.ins), len(e.implicit), len(e.order_only)) for e in runnable))
        keys: T.List[str] = []
        ilv: T.List[str] = []
        trace: T.Dict[str, T.Any] = {'edges': [{'idx': e.idx, 'line': e.line, 'outs': e.all_outs, 'ins': e.ins, 'implicit': e.implicit, 'order_only': e.order_only,
                                                'command': m.command(e)[:300]} for e in runnable][:80]}
        orders: T.List[T.Any] = [base.order]
        # ---- (a)+(b): schedules
        for pol in sc['policies']:
            X.restore_tree(pristine, bd)
            name, _, seed = pol.partition(':')
            res = ex.schedule(edges, name, random.Random(int(seed) if seed else 0))
            sim_steps += res.steps
            orders.append(res.order)
            add(faults, 'schedule-' + name)
            if res.order != base.order:
                keys.append(prng.short([shape, res.order]))
            ilv.append(prng.short([shape, res.order]))
            if not res.ok:
                fe = next((e for e in edges if e.idx == res.failed_edge), None)
                trace['order'] = res.order
                return R.violation('schedule-fails', f'schedule `{pol}` (order of edge lines {[next(e.line for e in edges if e.idx == i) for i in res.order][:40]}) fails although '
                                   f'declaration order builds: {res.detail[-1200:]}', f'schedule-fails:{fe.rule if fe else "?"}:{self.out_kind(fe)}', trace=trace,
                                   faults=faults, probes=probes, steps=sim_steps)
            diff = [o for o in base.digests if base.digests[o] != res.digests.get(o) and not o.endswith(('.gch', '.pch'))]   # gcc PCH files are not reproducible run to run
            if diff:
                return R.violation('schedule-changes-output', f'schedule `{pol}` yields different artifacts than declaration order: {diff[:6]}',
                                   'schedule-changes-output', trace=trace, faults=faults, probes=probes, steps=sim_steps)
        # ---- (c): hermetic replay of every edge
        if sc.get('hermetic', True):
            only = sc.get('hermetic_only')
            for e in runnable:
                if only is not None and e.line not in only and not any(o in only for o in e.all_outs):
                    continue
                anc = m.ancestors(e)
                X.restore_tree(pristine, bd)
                hidden = 0
                for a in edges:
                    if not ex.runnable(a):
                        continue
                    if a.idx in anc:
                        for o in a.all_outs:
                            X.copy_output(full, bd, o)
                    elif a.idx != e.idx:
                        hidden += len(a.all_outs)
                rc, out = ex.run_edge(e)
                sim_steps += 1
                add(faults, 'hermetic-replay')
                if hidden:
                    keys.append(prng.short([shape, 'h', e.idx]))
                if rc != 0:
                    missing = self.guess_missing(out, m, e)
                    return R.violation('missing-dependency', f'edge producing {e.outs} (build.ninja line {e.line}, rule {e.rule}) fails when only its declared ancestors '
                                       f'were built: {out[-900:]}' + (f' -- it reads {missing} which no declared input orders before it' if missing else ''),
                                       f'missing-dependency:{e.rule}:{self.out_kind(e)}', trace=dict(trace, failing=e.line), faults=faults, probes=probes, steps=sim_steps)
                for o in e.all_outs:
                    d = X.file_digest(os.path.join(bd, o))
                    if d != base.digests.get(o) and not o.endswith(('.gch', '.pch')):
                        return R.violation('hermetic-output-differs', f'edge producing {o} (line {e.line}) yields a different artifact when only its declared ancestors are present',
                                           f'hermetic-output-differs:{e.rule}', trace=trace, faults=faults, probes=probes, steps=sim_steps)
        nontrivial = gen_consumed >= 1 and bool(keys)
        add(probes, 'edges-executed', sim_steps)
        return R.ok(faults=faults, probes=probes, nontrivial=nontrivial, distinct_keys=keys, distinct_key=prng.short(keys), interleavings=ilv,
                    steps=sim_steps, summary={'edges': len(runnable), 'generated_inputs_consumed': gen_consumed, 'policies': sc['policies'],
                                              'base_order_lines': [next(e.line for e in edges if e.idx == i) for i in base.order][:30]},
                    trace_digest=prng.digest([sorted(base.digests), orders, sorted(keys)]))

    @staticmethod
    def out_kind(e: T.Any) -> str:
        if e is None or not e.outs:
            return '?'
        o = e.outs[0]
        for suf in ('.o', '.a', '.so', '.h', '.c', '.txt'):
            if o.endswith(suf):
                return suf
        return 'exe' if '.' not in os.path.basename(o) else 'other'

    @staticmethod
    def guess_missing(out: str, m: Manifest, e: T.Any) -> T.Optional[str]:
        import re
        mm = re.search(r"fatal error: ([^:]+): No such file", out) or re.search(r"No such file or directory: '([^']+)'", out) or \
            re.search(r"cannot find ([^\s:]+)", out)
        return mm.group(1) if mm else None

    # ------------------------------------------------------------------ shrinking
    def shrink(self, sc: T.Dict[str, T.Any]) -> T.Iterator[T.Dict[str, T.Any]]:
        if len(sc['policies']) > 1:
            for p in sc['policies']:
                c = copy.deepcopy(sc)
                c['policies'] = [p]
                yield c
        if sc.get('corpus'):
            return
        ents = sc['spec']['ents']
        # drop leaf entities (nothing refers to them)
        import json
        for i in range(len(ents) - 1, -1, -1):
            n = ents[i]['name']
            others = json.dumps([e for j, e in enumerate(ents) if j != i])
            if f'"{n}"' in others:
                continue
            c = copy.deepcopy(sc)
            del c['spec']['ents'][i]
            yield c
        if sc['spec'].get('subp') and not any(e.get('subp') for e in ents):
            c = copy.deepcopy(sc)
            c['spec']['subp'] = False
            yield c
        for i, e in enumerate(ents):
            if e.get('subp'):
                c = copy.deepcopy(sc)
                c['spec']['ents'][i]['subp'] = False
                yield c
            for key in ('uses', 'link_with', 'link_whole', 'deps', 'pairs', 'pair_hdr_only', 'gsrcs', 'inputs', 'depends', 'hdrs', 'ghdr_of'):
                for v in list(e.get(key) or []):
                    c = copy.deepcopy(sc)
                    c['spec']['ents'][i][key].remove(v)
                    yield c
        if sc['spec'].get('unity') != 'off':
            c = copy.deepcopy(sc)
            c['spec']['unity'] = 'off'
            yield c
        if len(set(e['seg'] for e in ents)) > 1:
            c = copy.deepcopy(sc)
            for e in c['spec']['ents']:
                e['seg'] = 0
            c['spec']['segs'] = ['']
            yield c


CHECK = Check()
