"""Run the tree's `meson test` inside the simulator (call inside a forked child)."""
from __future__ import annotations

import asyncio
import base64
import json
import os
import random
import time
import typing as T

from ..core import env as E
from .loop import Sim, SimDeadlock, SimPolicy, SimStepLimit, SimLoop


def run_mtest(builddir: str, argv: T.List[str], simparams: T.Dict[str, T.Any],
              scripts: T.Dict[str, T.Any], logbase: str = 'testlog') -> T.Dict[str, T.Any]:
    E.use_tree()
    from mesonbuild import mtest

    def script_for(args: T.Sequence[str], env: T.Dict[str, str]) -> T.Tuple[T.Any, T.Dict[str, T.Any]]:
        rest = [a for a in args if not a.startswith('--gtest_output=')]     # (appended by meson for protocol: 'gtest')
        tid = rest[-1] if rest else '?'
        it = int(env.get('MESON_TEST_ITERATION', '1'))
        sc = scripts.get(tid)
        if sc is None:
            sc = {'dur': 0.01, 'code': 0}
        if isinstance(sc, list):
            sc = sc[(it - 1) % len(sc)]
        return [tid, it], sc

    sim = Sim(simparams, script_for)
    asyncio.set_event_loop_policy(SimPolicy(sim))
    os.killpg = sim.killpg  # type: ignore[assignment]
    time.time = lambda: Sim.EPOCH0 + (sim.loop._now if sim.loop is not None else 0.0)  # type: ignore[assignment]
    random.seed(simparams.get('rand_seed', 0))
    if simparams.get('tty'):
        # pretend to be attached to a terminal: the console logger then runs its progress reporter
        # (an asyncio task driven by one-second timers on the simulated clock)
        import sys
        sys.stdout.isatty = lambda: True        # type: ignore[method-assign]
        os.get_terminal_size = lambda fd=1: os.terminal_size((simparams.get('cols', 100), 30))   # type: ignore[assignment,misc]

    outcome = 'returned'
    detail = ''
    rc: T.Any = None
    try:
        rc = mtest.run_with_args(list(argv))
    except SimDeadlock as e:
        outcome, detail = 'hang', str(e)
    except SimStepLimit as e:
        outcome, detail = 'livelock', str(e)
    except SystemExit as e:
        outcome, rc = 'sysexit', e.code
    loop = sim.loop
    tl: T.List[T.Any] = []
    p = os.path.join(builddir, 'meson-logs', logbase + '.json')
    if os.path.exists(p):
        with open(p, encoding='utf-8') as f:
            for line in f:
                line = line.strip()
                if line:
                    tl.append(json.loads(line))
    junit = None
    p = os.path.join(builddir, 'meson-logs', logbase + '.junit.xml')
    if os.path.exists(p):
        with open(p, 'rb') as fb:
            junit = fb.read().decode('utf-8', 'replace')
    written = {}
    for pid, pr in sim.procs.items():
        written[str(pid)] = {str(fd): base64.b64encode(bytes(pipe.written)).decode() for fd, pipe in pr.pipes.items()}
    return {
        'outcome': outcome, 'detail': detail, 'rc': rc,
        'events': sim.events, 'probes': sim.probes, 'faults': sim.faults,
        'end_time': loop._now if loop is not None else 0.0,
        'steps': loop._steps if loop is not None else 0,
        'testlog': tl, 'junit': junit, 'written': written,
    }
