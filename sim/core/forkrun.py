"""Run a callable in a forked child of the (warm) current process.

The child shares the already-imported modules of the tree under test, so a
meson command costs milliseconds instead of an interpreter start; nothing of
its module state survives, exactly like a real process boundary.
"""
from __future__ import annotations

import io
import os
import pickle
import select
import signal
import sys
import time
import traceback
import typing as T


class ChildTimeout(Exception):
    pass


class ChildCrashed(Exception):
    pass


def forkrun(fn: T.Callable[..., T.Any], *args: T.Any, timeout: float = 60.0,
            capture: T.Optional[str] = None, cwd: T.Optional[str] = None,
            env: T.Optional[T.Dict[str, str]] = None, umask: T.Optional[int] = None) -> T.Dict[str, T.Any]:
    """Returns {'ok': bool, 'value': ..., 'exc': str|None, 'exc_type': str|None,
    'exc_in_sut': bool, 'out': captured text}.

    `capture`: path of a file receiving fd 1 and 2 of the child (text is read
    back into 'out'); None = inherit."""
    rfd, wfd = os.pipe()
    sys.stdout.flush()
    sys.stderr.flush()
    pid = os.fork()
    if pid == 0:
        # child
        code = 0
        try:
            os.close(rfd)
            signal.signal(signal.SIGINT, signal.SIG_DFL)
            if capture is not None:
                fd = os.open(capture, os.O_WRONLY | os.O_CREAT | os.O_TRUNC, 0o644)
                os.dup2(fd, 1)
                os.dup2(fd, 2)
                os.close(fd)
                sys.stdout = io.TextIOWrapper(os.fdopen(1, 'wb', closefd=False), encoding='utf-8',
                                              errors='backslashreplace', line_buffering=True)
                sys.stderr = io.TextIOWrapper(os.fdopen(2, 'wb', closefd=False), encoding='utf-8',
                                              errors='backslashreplace', line_buffering=True)
            dn = os.open(os.devnull, os.O_RDONLY)
            os.dup2(dn, 0)
            os.close(dn)
            if env is not None:
                os.environ.clear()
                os.environ.update(env)
            if cwd is not None:
                os.chdir(cwd)
            if umask is not None:
                os.umask(umask)
            res: T.Dict[str, T.Any]
            try:
                v = fn(*args)
                res = {'ok': True, 'value': v, 'exc': None, 'exc_type': None, 'exc_in_sut': False}
            except SystemExit as e:
                res = {'ok': True, 'value': ('SystemExit', e.code), 'exc': None, 'exc_type': None, 'exc_in_sut': False}
            except BaseException as e:  # noqa: B902
                tb = traceback.extract_tb(e.__traceback__)
                from .env import repo_dir, VERIF_DIR
                inner = tb[-1].filename if tb else ''
                # innermost non-stdlib frame decides whose fault it is
                in_sut = False
                for fr in reversed(tb):
                    fnm = os.path.abspath(fr.filename)
                    if fnm.startswith(VERIF_DIR + os.sep):
                        in_sut = False
                        break
                    if fnm.startswith(repo_dir() + os.sep):
                        in_sut = True
                        break
                res = {'ok': False, 'value': None, 'exc': ''.join(traceback.format_exception(type(e), e, e.__traceback__)),
                       'exc_type': type(e).__name__, 'exc_in_sut': in_sut, 'exc_inner': inner}
            try:
                sys.stdout.flush()
                sys.stderr.flush()
            except Exception:
                pass
            data = pickle.dumps(res)
            with os.fdopen(wfd, 'wb') as f:
                f.write(data)
        except BaseException:
            code = 3
            try:
                traceback.print_exc()
            except Exception:
                pass
        finally:
            os._exit(code)
    # parent
    os.close(wfd)
    chunks: T.List[bytes] = []
    deadline = time.monotonic() + timeout
    timed_out = False
    try:
        while True:
            left = deadline - time.monotonic()
            if left <= 0:
                timed_out = True
                break
            r, _, _ = select.select([rfd], [], [], min(left, 1.0))
            if r:
                b = os.read(rfd, 1 << 20)
                if not b:
                    break
                chunks.append(b)
    finally:
        os.close(rfd)
    if timed_out:
        try:
            os.kill(pid, signal.SIGKILL)
        except ProcessLookupError:
            pass
    _, status = os.waitpid(pid, 0)
    out = ''
    if capture is not None:
        try:
            with open(capture, 'r', encoding='utf-8', errors='backslashreplace') as f:
                out = f.read()
        except OSError:
            out = ''
    if timed_out:
        raise ChildTimeout(f'child exceeded {timeout}s; output so far:\n{out[-2000:]}')
    if not chunks:
        raise ChildCrashed(f'child died with wait status {status} without a result; output:\n{out[-4000:]}')
    res = pickle.loads(b''.join(chunks))
    res['out'] = out
    return res
