"""C08 - option state persists faithfully across the build-directory lifecycle.

Histories of lifecycle commands (setup / configure -D / configure -U / setup
--reconfigure / setup --wipe / option-file edits) with injected failures
(invalid -D, error() armed in a build file, OSError from the k-th storage call),
each command in its own forked child over the same build directory, stepped
against models/options_ref.py after every operation.
"""
from __future__ import annotations

import copy
import errno
import json
import os
import random
import shutil
import typing as T

from sim.core import env as E
from sim.core import prng
from sim.core import runner as R
from sim.core import mesonrun as M
from sim.core.forkrun import ChildTimeout, ChildCrashed
from models import options_ref as OR
from . import optproj as P
from .c09 import child_env, opt_lines

IO_SEAMS = ['os.replace', 'os.fsync', 'shutil.copyfile', 'pickle.dump', 'os.unlink']


def make_injector(seam: str, k: int, err: int) -> T.Callable[[], None]:
    def pre() -> None:
        import os as _os
        import pickle as _pickle
        import shutil as _shutil
        state = {'n': 0}
        mod, name = {'os.replace': (_os, 'replace'), 'os.fsync': (_os, 'fsync'), 'shutil.copyfile': (_shutil, 'copyfile'),
                     'pickle.dump': (_pickle, 'dump'), 'os.unlink': (_os, 'unlink')}[seam]
        real = getattr(mod, name)

        def wrapper(*a: T.Any, **kw: T.Any) -> T.Any:
            state['n'] += 1
            if state['n'] == k:
                print(f'VERIF-INJECT {seam} call {k} -> {errno.errorcode[err]}', flush=True)
                raise OSError(err, _os.strerror(err))
            return real(*a, **kw)
        setattr(mod, name, wrapper)
    return pre


class Check:
    id = 'C08'
    level = 'exploration'
    quick_n = 900
    thorough_budget_s = 900
    scenario_wall_limit = 400.0
    shrink_runs = 250
    rule = ('scenario = generated option project (top + subproject; string/boolean/integer/combo/array/feature options, a yielding '
            'option, built-ins and per-subproject built-in overrides) + a history of 2-12 lifecycle steps (setup, configure -D, '
            'configure -U, setup --reconfigure [-D], setup --wipe, option-file edits: add/remove/rename/narrow/widen/default/range) with '
            'injected failures (invalid value, unknown option, armed error() in a build file, a post-configuration script that fails after coredata.dat and cmd_line.txt were written, OSError at the k-th storage call); '
            'after every step the values a reconfiguration reports (get_option) and the set of project options it leaves in '
            'intro-buildoptions.json are compared with the reference model. Non-trivial: '
            '>=3 steps including >=1 state-changing step after the first setup, or an injected failure fired. Distinct by hash of '
            '(op-kind sequence, which options were assigned).')
    interleaving_measure = 'hash of the op-kind sequence incl. failure kinds'
    engine_desc = {
        'real': ['msetup, mconf, coredata.save/load, cmdline.*_cmd_line_file, OptionStore, option interpreter - one forked child per command over one build directory'],
        'stub': ['none for the commands; I/O errors are raised from patched os.replace/os.fsync/shutil.copyfile/pickle.dump/os.unlink inside the child'],
    }
    assumptions = [
        'observation = get_option() values printed by `meson setup --reconfigure` run on the build directory, which is restored from a copy afterwards so the observation does not perturb the history',
        'project()/subproject() default_options are not used (precedence of option sources is C07, not claimed)',
        'debug/optimization are only ever set through buildtype',
    ]

    def prepare(self, tier: str) -> None:
        M.warm()

    # ------------------------------------------------------------------ generation
    def generate(self, rng: random.Random, tier: str, index: int) -> T.Dict[str, T.Any]:
        spec = P.gen_spec(rng)
        spec['top_defaults'] = []
        spec['sub_defaults'] = []
        spec['backend'] = 'none'
        if rng.random() < 0.3:
            # a machine file given to `meson setup`: a top-level project option and/or built-ins get their value from it
            nat: T.Dict[str, str] = {}
            if rng.random() < 0.8:
                nat['yy'] = rng.choice(['from machine file', 'nv', ''])
            if rng.random() < 0.6:
                k = rng.choice(['warning_level', 'default_library', 'buildtype'])
                nat[k] = rng.choice(OR.BUILTIN_CHOICES[k])
            if nat:
                spec['native'] = nat
        faulty = rng.random() < 0.5          # fault-free and fault-injecting configurations are kept apart
        n = rng.randint(2, 12 if tier != 'quick' else 8)
        m = OR.Model(spec)
        work = copy.deepcopy(spec)
        steps: T.List[T.Dict[str, T.Any]] = []
        for i in range(n):
            st = self.gen_step(rng, m, work, faulty, first=(i == 0))
            if st is None:
                continue
            steps.append(st)
            self.model_step(m, work, st, assume_injected_fails=True)
        # (extra stream, added late) some of the armed failures strike *late*: a post-configuration script fails after
        # coredata.dat and cmd_line.txt were written; for the model it is the same failed step
        rx = prng.derive(prng.base_seed(), 'c08-extra', tier, index)
        if faulty and rx.random() < 0.6:
            spec['late'] = True
            for st in steps:
                if st['op'] in ('reconfigure', 'wipe') and (st.get('fault') or {}).get('kind') == 'armed' and rx.random() < 0.6:
                    st['fault'] = {'kind': 'armed-late'}
        # (extra stream) an array option holding several entries whose choice list then loses one of them (and gets a new default)
        touched = any(st['op'] == 'edit' and st['edit'].get('where') == 'top' and 'a' in (st['edit'].get('name'), (st['edit'].get('opt') or {}).get('name')) for st in steps)
        if any(o['name'] == 'a' for o in spec['top']) and not touched and steps and steps[0]['op'] == 'setup' and not steps[0].get('fault') and rx.random() < 0.35:
            val = rx.choice([['x', 'y'], ['y', 'z'], ['x', 'z'], ['x', 'y', 'z']])
            rm = rx.choice(val)
            keep = [c for c in ['x', 'y', 'z'] if c != rm] + rx.choice([[], ['w']])
            newdef = [rx.choice([c for c in keep if c not in val] or keep)]
            pos = rx.randint(1, min(len(steps), 3))
            if all(st['op'] in ('configure', 'reconfigure', 'edit') and not st.get('fault') for st in steps[1:pos]):
                steps[pos:pos] = [{'op': 'configure', 'D': {'a': ','.join(val)}},
                                  {'op': 'edit', 'edit': {'where': 'top', 'kind': 'choices', 'name': 'a', 'choices': keep, 'value': newdef}}]
        return {'kind': 'c08', 'spec': spec, 'steps': steps, 'faulty': faulty}

    @staticmethod
    def valid_assign(rng: random.Random, m: OR.Model, table: T.Dict[str, T.Any], n: int) -> T.Dict[str, str]:
        out: T.Dict[str, str] = {}
        for _ in range(n):
            kind = rng.choice(['top', 'top', 'sub', 'builtin', 'subbuiltin'])
            if kind == 'top' and table['top']:
                o = rng.choice(sorted(table['top'].values(), key=lambda o: o['name']))
                # ':opt' is another spelling of the top-level project's option `opt`
                out[(':' if rng.random() < 0.2 else '') + o['name']] = P.cli_value(P.draw_value(rng, o, True))
            elif kind == 'sub' and table.get('sub'):
                cands = [o for o in sorted(table['sub'].values(), key=lambda o: o['name'])
                         if not o.get('yield') or (o['name'] in (table['top'] or {}) and rng.random() < 0.5)]
                if cands:
                    o = rng.choice(cands)
                    out[f"{P.SUB}:{o['name']}"] = P.cli_value(P.draw_value(rng, o, True))
            elif kind == 'builtin':
                k = rng.choice(['buildtype', 'warning_level', 'default_library', 'werror'])
                if k != 'buildtype' and rng.random() < 0.2:
                    k = ':' + k          # the top-level project only: subprojects keep following the global value
                out[k] = rng.choice(OR.BUILTIN_CHOICES[k.lstrip(':')])
            elif kind == 'subbuiltin' and table.get('sub') is not None:
                k = rng.choice(['warning_level', 'default_library', 'werror'])
                out[f'{P.SUB}:{k}'] = rng.choice(OR.BUILTIN_CHOICES[k])
        return out

    def gen_step(self, rng: random.Random, m: OR.Model, work: T.Dict[str, T.Any], faulty: bool, first: bool) -> T.Optional[T.Dict[str, T.Any]]:
        fault: T.Optional[T.Dict[str, T.Any]] = None
        if not m.configured:
            ops = ['setup', 'setup', 'setup', 'edit'] + (['wipe'] if m.cmdline else [])
            if first:
                ops = ['setup']
        else:
            ops = ['configure'] * 4 + ['configure-U'] * 2 + ['reconfigure'] * 3 + ['wipe'] * 2 + ['edit'] * 3
        op = rng.choice(ops)
        if faulty and rng.random() < 0.35 and op != 'edit':
            fk = rng.choice(['bad-value', 'unknown-option', 'armed', 'armed-sub', 'ioerr', 'ioerr'])
            if fk in ('bad-value', 'unknown-option') and op == 'wipe':
                fk = 'armed'
            if fk == 'armed-sub' and work.get('sub') is None:
                fk = 'armed'
            if fk.startswith('armed') and op in ('configure', 'configure-U'):
                fk = 'bad-value'
            if fk == 'ioerr' and op not in ('configure', 'configure-U', 'reconfigure'):
                # the statement speaks of failing configure / reconfigure; where a first setup or a wipe
                # is when an I/O error hits is not something the model can know
                fk = 'armed'
            fault = {'kind': fk}
            if fk == 'ioerr':
                fault.update({'seam': rng.choice(IO_SEAMS), 'k': rng.randint(1, 4), 'errno': rng.choice([errno.ENOSPC, errno.EIO])})
        if op == 'edit':
            ed = None
            if m.own and rng.random() < 0.5:
                # bias: edit the definition of an option the user has just pinned
                nm = rng.choice(sorted(m.own)).split(':', 1)[1]
                o = next((o for o in (work.get('sub') or []) if o['name'] == nm and o['type'] == 'combo'), None)
                if o is not None:
                    if rng.random() < 0.5 and len(o['choices']) > 1:
                        keep = sorted(rng.sample(o['choices'], len(o['choices']) - 1), key=o['choices'].index)
                        ed = {'where': 'sub', 'kind': 'choices', 'name': nm, 'choices': keep, 'value': o['value'] if o['value'] in keep else keep[0]}
                    else:
                        extra = [c for c in ['k1', 'k2', 'k3', 'k4', 'k5'] if c not in o['choices']]
                        if extra:
                            ed = {'where': 'sub', 'kind': 'choices', 'name': nm, 'choices': o['choices'] + [extra[0]], 'value': o['value']}
            if ed is None:
                ed = P.draw_edit(rng, work)
            if ed is None:
                return None
            return {'op': 'edit', 'edit': ed}
        st: T.Dict[str, T.Any] = {'op': op}
        if op == 'setup':
            st['D'] = self.valid_assign(rng, m, m.files, rng.randint(0, 3))
            if m.native:
                # the user names the machine file again, or relies on what a leftover cmd_line.txt recorded
                st['native'] = first or not m.native_recorded or rng.random() < 0.5
        elif op == 'configure':
            st['D'] = self.valid_assign(rng, m, m.files, rng.randint(1, 3)) or {'warning_level': '2'}
        elif op == 'configure-U':
            if not m.aug and not m.own:
                k = f'{P.SUB}:' + rng.choice(['warning_level', 'default_library', 'werror'])
                if m.known.get('sub') is None:
                    return None
                return {'op': 'configure', 'D': {k: rng.choice(OR.BUILTIN_CHOICES[k.split(':')[1]])}}
            st = {'op': 'configure', 'U': [rng.choice(sorted(set(m.aug) | m.own))], 'D': {}}
            if rng.random() < 0.3:
                st['D'] = {k: v for k, v in self.valid_assign(rng, m, m.files, 1).items() if k not in st['U']}
        elif op == 'reconfigure':
            d = self.valid_assign(rng, m, m.known, rng.randint(0, 2))
            st['D'] = {k: v for k, v in d.items() if self._valid(m, m.files, k, v)}
        if fault is not None:
            if fault['kind'] == 'bad-value':
                tbl = m.files
                bad = P.draw_assignments(rng, {'top': list((tbl['top'] or {}).values()), 'sub': list(tbl['sub'].values()) if tbl.get('sub') else None},
                                         1, allow_invalid=1.0)
                bad = {k: v for k, v in bad.items() if not self._valid(m, tbl, k, v)}
                if not bad:
                    fault = None
                else:
                    d = dict(st.get('D') or {})
                    if rng.random() < 0.5:
                        d.update(bad)
                    else:
                        d = dict(bad, **d)
                    for k, v in bad.items():
                        d[k] = v
                    st['D'] = d
                    if set(d) & set(st.get('U') or []):
                        return None
            elif fault['kind'] == 'unknown-option':
                d = dict(st.get('D') or {})
                d['nosuchoption'] = '1'
                st['D'] = d
        if fault is not None:
            st['fault'] = fault
        longs = [k for k in (st.get('D') or {}) if k in P.LONG_FORM and rng.random() < 0.35]
        if longs:
            st['long'] = longs      # e.g. --buildtype=release instead of -Dbuildtype=release
        return st

    @staticmethod
    def _valid(m: OR.Model, tbl: T.Dict[str, T.Any], k: str, v: str) -> bool:
        try:
            m.check_assignments({k: v}, tbl)
            return True
        except OR.Invalid:
            return False

    # ------------------------------------------------------------------ model stepping
    def model_step(self, m: OR.Model, work: T.Dict[str, T.Any], st: T.Dict[str, T.Any], assume_injected_fails: bool,
                   observed_ok: T.Optional[bool] = None) -> T.Optional[bool]:
        """Returns the predicted success (None = not predicted, e.g. an I/O error that may or may not hit)."""
        op = st['op']
        if op == 'edit':
            P.apply_edit(work, st['edit'])
            m.apply_edit(st['edit'])
            return True
        fault = st.get('fault')
        forced_fail = False
        if fault is not None and fault['kind'] in ('armed', 'armed-sub', 'armed-late'):
            forced_fail = True
        if fault is not None and fault['kind'] == 'ioerr':
            if observed_ok is None:
                forced_fail = assume_injected_fails
            else:
                forced_fail = not observed_ok
        if forced_fail:
            if op == 'wipe':
                # the directory was emptied before the failure: only the recorded command line survives
                m.configured = False
                m.known = {'top': {}, 'sub': None}
                m.vals, m.builtin, m.aug = {}, {}, {}
                m.own = set()
            return False if fault['kind'] != 'ioerr' else None
        if op == 'setup':
            return m.setup(st.get('D') or {}, bool(st.get('native')))
        if op == 'configure':
            return m.configure(st.get('D') or {}, st.get('U') or [])
        if op == 'reconfigure':
            return m.reconfigure(st.get('D') or {}, observed_ok)
        if op == 'wipe':
            return bool(m.wipe())
        raise AssertionError(op)

    # ------------------------------------------------------------------ execution
    def run(self, sc: T.Dict[str, T.Any]) -> T.Dict[str, T.Any]:
        root = E.mkscratch('c08')
        try:
            return self._run(sc, os.path.realpath(root))
        except ChildTimeout as e:
            return R.violation('hang-wall', f'a meson command exceeded the wall limit: {e}'[:1500], 'hang-wall')
        except ChildCrashed as e:
            return R.harness_error(f'child crashed: {e}')
        finally:
            E.rmscratch(root)

    def argv_for(self, st: T.Dict[str, T.Any], bd: str, sd: str) -> T.List[str]:
        d = P.d_args(st.get('D') or {}, st.get('long') or [])
        if st['op'] == 'setup':
            nf = ['--native-file', os.path.join(os.path.dirname(bd), 'native.ini')] if st.get('native') else []
            return ['setup', '--backend=none'] + nf + [bd, sd] + d
        if st['op'] == 'reconfigure':
            return ['setup', '--reconfigure', bd, sd] + d
        if st['op'] == 'wipe':
            return ['setup', '--wipe', bd, sd]
        return ['configure', bd] + d + [f'-U{k}' for k in st.get('U') or []]

    def observe(self, root: str, bd: str, sd: str, tag: str) -> T.Tuple[int, T.Dict[str, str], str]:
        keep = bd + '.keep'
        shutil.rmtree(keep, ignore_errors=True)
        shutil.copytree(bd, keep, symlinks=True)
        try:
            r = M.meson(['setup', '--reconfigure', bd, sd], capture=os.path.join(root, f'obs-{tag}.log'), env=child_env(), timeout=120)
            rc = r['value'] if r['ok'] else 99
            self.last_declared = None
            if rc == 0:
                # the set of project options the directory now holds ("a removed one vanishes")
                try:
                    with open(os.path.join(bd, 'meson-info', 'intro-buildoptions.json'), encoding='utf-8') as f:
                        self.last_declared = sorted(e['name'] for e in json.load(f) if e.get('section') == 'user')
                except (OSError, ValueError, KeyError):
                    self.last_declared = None
            return rc, opt_lines(r['out']), r['out'] + ('' if r['ok'] else str(r['exc']))
        finally:
            shutil.rmtree(bd, ignore_errors=True)
            os.rename(keep, bd)

    def _run(self, sc: T.Dict[str, T.Any], root: str) -> T.Dict[str, T.Any]:
        spec = copy.deepcopy(sc['spec'])
        work = copy.deepcopy(spec)
        sd = os.path.join(root, 'src')
        bd = os.path.join(root, 'bd')
        P.render(spec, sd)
        if spec.get('native'):
            with open(os.path.join(root, 'native.ini'), 'w', encoding='utf-8') as f:
                po = {k: v for k, v in spec['native'].items() if k not in OR.BUILTIN_CHOICES}
                bo = {k: v for k, v in spec['native'].items() if k in OR.BUILTIN_CHOICES}
                if po:
                    f.write('[project options]\n' + ''.join(f'{k} = {P.lit(v)}\n' for k, v in po.items()))
                if bo:
                    f.write('[built-in options]\n' + ''.join(f'{k} = {P.lit(v)}\n' for k, v in bo.items()))
        m = OR.Model(spec)
        faults: T.Dict[str, int] = {}
        probes: T.Dict[str, int] = {}

        def add(d: T.Dict[str, int], k: str, n: int = 1) -> None:
            d[k] = d.get(k, 0) + n
        kinds: T.List[str] = []
        state_changes = 0
        trace: T.List[T.Any] = []
        for si, st in enumerate(sc['steps']):
            ok_ = True
            pred: T.Optional[bool] = True
            fault: T.Optional[T.Dict[str, T.Any]] = None
            argv: T.List[str] = []
            if st['op'] == 'edit':
                self.model_step(m, work, st, False)
                P.write_edit(work, sd, st['edit']['where'])
                kinds.append('edit:' + st['edit']['kind'])
                state_changes += 1
                trace.append({'step': si, 'op': 'edit', 'edit': st['edit']})
            else:
                # a step generated under the assumption that an injected fault fires may not apply any more
                if (st['op'] in ('configure', 'reconfigure') and not m.configured) or (st['op'] == 'setup' and m.configured) \
                        or (st['op'] == 'wipe' and not m.configured and not m.cmdline and not os.path.isdir(os.path.join(bd, 'meson-private'))):
                    add(probes, 'history-truncated')
                    break
                fault = st.get('fault')
                argv = self.argv_for(st, bd, sd)
                pre = None
                armed: T.List[str] = []
                if fault is not None:
                    if fault['kind'] == 'armed':
                        armed.append(os.path.join(sd, 'ARMED_FAILURE'))
                    elif fault['kind'] == 'armed-late':
                        armed.append(os.path.join(sd, 'ARMED_LATE'))
                    elif fault['kind'] == 'armed-sub':
                        armed.append(os.path.join(sd, 'subprojects', P.SUB, 'ARMED_FAILURE'))
                    elif fault['kind'] == 'ioerr':
                        pre = make_injector(fault['seam'], fault['k'], fault['errno'])
                for a in armed:
                    with open(a, 'w') as f:
                        f.write('x')
                before = m.clone()
                try:
                    r = M.meson(argv, capture=os.path.join(root, f'step-{si}.log'), env=child_env(), timeout=120, pre=pre)
                finally:
                    for a in armed:
                        os.unlink(a)
                out = r['out']
                injected = 'VERIF-INJECT' in out
                if not r['ok']:
                    if r['exc_in_sut'] and not injected:
                        return R.violation('sut-exception', f'step {si} {argv[:2]} raised: {r["exc"][-1500:]}', 'sut-exception:' + str(r['exc_type']),
                                           trace=trace, faults=faults, probes=probes)
                    ok_ = False
                else:
                    ok_ = r['value'] == 0
                if 'Traceback (most recent call last)' in out and not injected:
                    return R.violation('sut-exception', f'step {si} `meson {" ".join(argv[:2])}` {st.get("D")} printed a traceback: {out[-1500:]}',
                                       'sut-exception:printed:' + st['op'], trace=trace, faults=faults, probes=probes)
                if fault is not None and fault['kind'] == 'ioerr' and not injected:
                    fault = None   # the k-th call never happened: an ordinary step
                    add(probes, 'ioerr-not-reached')
                if fault is not None:
                    add(faults, fault['kind'] + (':' + fault['seam'] if fault['kind'] == 'ioerr' else ''))
                st_eff = dict(st)
                if fault is None:
                    st_eff.pop('fault', None)
                pred = self.model_step(m, work, st_eff, False, observed_ok=ok_)
                kinds.append(st['op'] + ('!' + st['fault']['kind'] if fault is not None else ''))
                trace.append({'step': si, 'argv': argv[:2] + argv[4 if argv[0] == 'setup' else 2:], 'fault': fault, 'rc_ok': ok_, 'predicted': pred})
                if pred is not None and pred != ok_:
                    tail = ' | '.join(out.strip().splitlines()[-6:])[-700:]
                    return R.violation('outcome', f'step {si} `meson {" ".join(argv[:2])}` D={st.get("D")} U={st.get("U")} fault={fault}: '
                                       f'{"succeeded" if ok_ else "failed"} but the model predicts {"success" if pred else "failure"}; output: {tail}',
                                       f'outcome:{st["op"]}:{"unexpected-success" if ok_ else "unexpected-failure"}', trace=trace, faults=faults, probes=probes)
                if pred is None and not (fault is not None and fault['kind'] == 'ioerr'):
                    add(probes, 'undetermined-step')
                    break
                if ok_ and st['op'] != 'edit':
                    state_changes += 1
                if ok_ and st['op'] in ('setup', 'reconfigure', 'wipe'):
                    # values the build files saw during this very step
                    seen = opt_lines(out)
                    v = self.compare(seen, m.effective(), f'step {si} `meson {" ".join(argv[:2])}` D={st.get("D")} (values seen by the build files during the step)',
                                     'during:' + st['op'], trace, faults, probes)
                    if v is not None:
                        return v
            # ---- observation after the step
            last = sc['steps'][si]
            failed_step = last['op'] != 'edit' and not ok_
            ftag = ''
            if failed_step:
                fk = (fault or {}).get('kind', 'plain')
                ftag = f"{last['op']}:{fk}" + (f":{fault['seam']}" if fk == 'ioerr' else '')
            rec = self.read_cmdline(bd)
            if rec is not None and pred is not None or (rec is not None and failed_step):
                want_rec = {k: v for k, v in m.cmdline.items()}
                got_rec = {k: v for k, v in rec.items() if k != 'backend'}
                def replayed(d: T.Dict[str, str]) -> T.Dict[str, str]:
                    # what a replay of the record, top to bottom, amounts to: 'opt' and ':opt' are one project option
                    # (the entry further down wins), for a built-in they are two settings (global / top-level project only)
                    out_: T.Dict[str, str] = {}
                    for k_, v_ in d.items():
                        proj_, name_ = OR.split_key(k_)
                        if proj_ == '' and name_ not in OR.BUILTIN_CHOICES:
                            k_ = name_
                        out_[k_] = v_
                    return out_
                got_rec, want_rec = replayed(got_rec), replayed(want_rec)
                if got_rec != want_rec:
                    diff = {k: {'file': got_rec.get(k), 'model': want_rec.get(k)} for k in sorted(set(got_rec) | set(want_rec)) if got_rec.get(k) != want_rec.get(k)}
                    if failed_step:
                        return R.violation('failed-step-changed-cmdline', f'step {si} `meson {" ".join(argv[:2])}` D={last.get("D")} U={last.get("U")} fault={fault} failed, '
                                           f'yet meson-private/cmd_line.txt (what --wipe replays) changed: {json.dumps(diff, sort_keys=True)[:600]}',
                                           f'failed-step-changed-cmdline:{ftag}', trace=trace, faults=faults, probes=probes)
                    return R.violation('cmdline-mismatch', f'after step {si} {kinds[-1]} D={last.get("D")} U={last.get("U")}: recorded command line differs from every -D given so far: '
                                       f'{json.dumps(diff, sort_keys=True)[:600]}', f'cmdline-mismatch:{kinds[-1]}', trace=trace, faults=faults, probes=probes)
            if m.configured and os.path.exists(os.path.join(bd, 'meson-private', 'coredata.dat')):
                rc, vals, text = self.observe(root, bd, sd, str(si))
                if rc != 0:
                    return R.violation('unusable', f'after step {si} {kinds[-1]} a plain `meson setup --reconfigure` fails (rc={rc}): '
                                       + ' | '.join(text.strip().splitlines()[-6:])[-800:], f'unusable-after:{kinds[-1]}', trace=trace, faults=faults, probes=probes)
                lastfault = sc['steps'][si].get('fault') if sc['steps'][si]['op'] != 'edit' else None
                what = f'after step {si} {kinds[-1]} ({json.dumps({k: sc["steps"][si].get(k) for k in ("D", "U", "edit") if sc["steps"][si].get(k)})[:300]})'
                v = self.compare(vals, m.effective(), what, 'after:' + kinds[-1], trace, faults, probes)
                if v is None and self.last_declared is not None:
                    want_decl = sorted(list(m.files['top'] or {}) + [f'{P.SUB}:{n}' for n in (m.files['sub'] or {})])
                    if want_decl != self.last_declared:
                        add(probes, 'declared-set-mismatch')
                        v = R.violation('declared-set-mismatch', f'{what}: after a reconfiguration the directory holds project options '
                                        f'{sorted(set(self.last_declared) - set(want_decl))} that no option file declares / lacks '
                                        f'{sorted(set(want_decl) - set(self.last_declared))} that one does',
                                        f'declared-set-mismatch:after:{kinds[-1]}', trace=trace, faults=faults, probes=probes)
                if v is not None:
                    if failed_step:
                        v['vclass'] = 'failed-step-changed-values'
                        v['signature'] = f'failed-step-changed-values:{ftag}'
                        v['detail'] = f'the step failed, yet persisted values changed; ' + v['detail']
                    return v
            elif m.configured:
                return R.violation('state-lost', f'after step {si} {kinds[-1]} coredata.dat is gone although the model says the directory is configured',
                                   f'state-lost:{kinds[-1]}', trace=trace, faults=faults, probes=probes)
        nontrivial = (len(sc['steps']) >= 3 and state_changes >= 2) or bool(faults)
        return R.ok(faults=faults, probes=probes, nontrivial=nontrivial, distinct_key=prng.short([kinds, sorted({k for s in sc['steps'] for k in (s.get('D') or {})})]),
                    interleavings=[prng.short(kinds)], summary={'ops': kinds}, steps=len(sc['steps']),
                    trace_digest=prng.digest(json.loads(json.dumps(trace, default=str).replace(root, '<ROOT>'))))

    @staticmethod
    def read_cmdline(bd: str) -> T.Optional[T.Dict[str, str]]:
        p = os.path.join(bd, 'meson-private', 'cmd_line.txt')
        if not os.path.isfile(p):
            return None
        import configparser
        cp = configparser.ConfigParser(delimiters=['='], interpolation=None)
        cp.optionxform = lambda x: x   # type: ignore[assignment,method-assign]
        try:
            cp.read(p, encoding='utf-8')
        except configparser.Error:
            return {'<unparsable>': '1'}
        if 'options' not in cp:
            return {}
        return dict(cp['options'].items())

    def compare(self, got: T.Dict[str, str], want: T.Dict[str, str], what: str, sigtag: str, trace: T.Any,
                faults: T.Dict[str, int], probes: T.Dict[str, int]) -> T.Optional[T.Dict[str, T.Any]]:
        diffs = {}
        for k in sorted(set(got) | set(want)):
            if got.get(k) != want.get(k):
                diffs[k] = {'meson': got.get(k), 'model': want.get(k)}
        if not diffs:
            return None
        first = sorted(diffs)[0]
        kind = 'project' if first.split(':', 1)[1] not in ('buildtype', 'debug', 'optimization', 'warning_level', 'default_library') else 'builtin'
        where = 'sub' if first.startswith(P.SUB + ':') else 'top'
        return R.violation('value-mismatch', f'{what}: {json.dumps(diffs, sort_keys=True)[:900]}', f'value-mismatch:{sigtag}:{where}-{kind}',
                           trace=trace, faults=faults, probes=probes)

    # ------------------------------------------------------------------ shrinking
    def shrink(self, sc: T.Dict[str, T.Any]) -> T.Iterator[T.Dict[str, T.Any]]:
        steps = sc['steps']
        for sub in R.drop_each(steps, 1):
            if sub and sub[0]['op'] == 'setup':
                c = copy.deepcopy(sc)
                c['steps'] = copy.deepcopy(sub)
                yield c
        for i, st in enumerate(steps):
            if st.get('fault'):
                c = copy.deepcopy(sc)
                f = c['steps'][i].pop('fault')
                if f['kind'] in ('bad-value', 'unknown-option'):
                    continue
                yield c
            if st.get('long'):
                c = copy.deepcopy(sc)
                c['steps'][i].pop('long')
                yield c
            for k in list((st.get('D') or {}).keys()):
                if st['op'] == 'configure' and len(st.get('D') or {}) + len(st.get('U') or []) <= 1:
                    break
                c = copy.deepcopy(sc)
                del c['steps'][i]['D'][k]
                yield c
        used = json.dumps(steps)
        for side in ('top', 'sub'):
            lst = sc['spec'].get(side)
            if not lst:
                continue
            for i, o in enumerate(lst):
                nm = o['name'] if side == 'top' else f"{P.SUB}:{o['name']}"
                if f'"{nm}"' in used or f'"name": "{o["name"]}"' in used or o['name'] == 'yy':
                    continue
                if len(lst) <= 1:
                    continue
                c = copy.deepcopy(sc)
                del c['spec'][side][i]
                yield c
        if sc['spec'].get('sub') is not None and f'{P.SUB}:' not in used and '"where": "sub"' not in used:
            c = copy.deepcopy(sc)
            c['spec']['sub'] = None
            yield c


CHECK = Check()
