#!/venv/bin/python
"""Computes checks/c06_corpus_ok.txt: projects of `test cases/common` that configure here and are byte-identical
across hash seeds / env order / listing order / reconfigure / wipe on the current tree."""
import concurrent.futures as cf, multiprocessing as mp, os, sys
HERE = os.path.dirname(os.path.abspath(__file__)); sys.path.insert(0, HERE)
os.environ.setdefault('PYTHONHASHSEED', '0')
from sim.core import env as E
E.use_tree()
from checks.c06 import CHECK
def one(name):
    sc = {'kind': 'c06', 'corpus': name, 'opts': {}, 'backdate': 3600, 'variants': [
        {'hashseed': 1, 'envperm': 11, 'pad': 100, 'lsseed': 7, 'history': 'fresh'},
        {'hashseed': 12345, 'envperm': 0, 'pad': 0, 'lsseed': 0, 'history': 'reconfigure'},
        {'hashseed': 999, 'envperm': 5, 'pad': 5000, 'lsseed': 3, 'history': 'wipe'}]}
    try:
        out = CHECK.run(sc)
    except Exception as e:
        return name, 'harness-exception', repr(e)[:200]
    if out['status'] == 'ok':
        if out.get('summary', {}).get('skipped'):
            return name, 'skipped', str(out['summary'].get('why', ''))[-160:].replace('\n', ' ')
        return name, 'ok', ''
    return name, out['status'] + ':' + out.get('signature', ''), str(out.get('detail'))[:400].replace('\n', ' ')
if __name__ == '__main__':
    base = os.path.join(E.repo_dir(), 'test cases', 'common')
    names = sorted(os.listdir(base)) if len(sys.argv) < 2 else sys.argv[1:]
    with cf.ProcessPoolExecutor(max_workers=14, mp_context=mp.get_context('fork')) as ex:
        res = list(ex.map(one, names))
    if len(sys.argv) >= 2:
        print(res); sys.exit(0)
    ok = [n for n, st, _ in res if st == 'ok']
    with open(os.path.join(HERE, 'checks', 'c06_corpus_ok.txt'), 'w') as f:
        f.write('# projects of test cases/common that pass every C06 oracle on the tree as of tools_c06_corpus.py\n' + '\n'.join(ok) + '\n')
    with open(os.path.join(HERE, 'checks', 'c06_corpus_excluded.txt'), 'w') as f:
        for n, st, why in res:
            if st != 'ok':
                f.write(f'{n}\t{st}\t{why}\n')
    from collections import Counter
    print(len(ok), 'ok of', len(names), Counter(st.split(':')[0] for _, st, _ in res))
