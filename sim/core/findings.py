"""known_findings.jsonl: committed list of genuine defects that are recorded
rather than repaired (status "open") and of repaired ones (status "fixed",
which suppress nothing). Never written at run time."""
from __future__ import annotations

import fnmatch
import json
import os
import typing as T

from . import env as E

PATH = os.path.join(E.VERIF_DIR, 'known_findings.jsonl')


def load() -> T.List[T.Dict[str, T.Any]]:
    out: T.List[T.Dict[str, T.Any]] = []
    if not os.path.exists(PATH):
        return out
    with open(PATH) as f:
        for line in f:
            line = line.strip()
            if not line or line.startswith('#'):
                continue
            out.append(json.loads(line))
    return out


def match(findings: T.List[T.Dict[str, T.Any]], prop: str, signature: str) -> T.Optional[T.Dict[str, T.Any]]:
    for f in findings:
        if f.get('status') != 'open' or f.get('property') != prop:
            continue
        pat = f['signature']
        if signature == pat:
            return f
        # only * and ? are wildcards; brackets are literal (signatures contain JSON paths like "[].depends")
        pat = pat.replace('[', '\x00').replace(']', '[]]').replace('\x00', '[[]')
        if fnmatch.fnmatchcase(signature, pat):
            return f
    return None
