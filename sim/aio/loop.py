"""Deterministic, virtual-time asyncio event loop with simulated child processes.

Everything the code under test can observe from the outside world goes through
this module:

  * loop.time()            -> simulated clock (jumps to the next timer / event)
  * child processes        -> `SimProc`, driven by a *script* (durations, output
                              chunks, exit status, reaction to signals)
  * pipes                  -> `SimReadPipe` transports feeding the **real**
                              asyncio StreamReader / SubprocessStreamProtocol /
                              BaseSubprocessTransport / Process objects
  * os.killpg / Popen.kill -> posted to the simulated process (group)
  * signals to the harness -> handlers registered with add_signal_handler are
                              fired by scripted simulator events

asyncio's own FIFO order of ready callbacks is never permuted; only externally
caused events (pipe data, EOF, child exit, signals) are ordered by the
simulator, with ties broken from the scenario's PRNG.
"""
from __future__ import annotations

import asyncio
import heapq
import random
import signal
import typing as T
from asyncio import base_events, base_subprocess, events, transports


class SimDeadlock(BaseException):
    """Nothing runnable, no timer, no pending external event, loop not stopped."""


class SimStepLimit(BaseException):
    pass


class _Selector:
    def __init__(self, loop: 'SimLoop') -> None:
        self.loop = loop

    def select(self, timeout: T.Optional[float]) -> T.List[T.Callable[[], None]]:
        return self.loop._sim_select(timeout)

    def close(self) -> None:
        pass


class SimReadPipe(transports.ReadTransport):
    """Read end of a simulated pipe, as seen by asyncio."""

    MAX_READ = 256 * 1024

    def __init__(self, loop: 'SimLoop', pipe: 'SimPipeEnd', protocol: asyncio.BaseProtocol,
                 waiter: T.Optional[asyncio.Future]) -> None:
        super().__init__()
        self._loop = loop
        self._pipe = pipe
        self._protocol = protocol
        self._closing = False
        self._paused = False
        self._lost = False
        pipe.transport = self
        loop.call_soon(protocol.connection_made, self)
        loop.call_soon(self._start)
        if waiter is not None:
            loop.call_soon(asyncio.futures._set_result_unless_cancelled, waiter, None)

    def _start(self) -> None:
        self._pipe.reading = True
        self._pipe.kick()

    # --- called by the simulator (through a ready callback) ---
    def _sim_readable(self) -> None:
        """Equivalent of _UnixReadPipeTransport._read_ready: one read()."""
        if self._closing or self._paused:
            return
        item = self._pipe.pop_item(self.MAX_READ)
        if item is None:
            return
        if item == b'':
            self._closing = True
            self._pipe.reading = False
            self._loop.call_soon(self._protocol.eof_received)
            self._loop.call_soon(self._call_connection_lost, None)
        else:
            self._protocol.data_received(item)

    def _call_connection_lost(self, exc: T.Optional[BaseException]) -> None:
        if self._lost:
            return
        self._lost = True
        try:
            self._protocol.connection_lost(exc)
        finally:
            self._protocol = None

    # --- transport API ---
    def pause_reading(self) -> None:
        if self._closing or self._paused:
            return
        self._paused = True
        self._pipe.reading = False
        self._loop.sim.probe('pipe-paused')

    def resume_reading(self) -> None:
        if self._closing or not self._paused:
            return
        self._paused = False
        self._pipe.reading = True
        self._pipe.kick()

    def is_reading(self) -> bool:
        return not self._paused and not self._closing

    def set_protocol(self, protocol: asyncio.BaseProtocol) -> None:
        self._protocol = protocol

    def get_protocol(self) -> asyncio.BaseProtocol:
        return self._protocol

    def is_closing(self) -> bool:
        return self._closing

    def close(self) -> None:
        if not self._closing:
            self._closing = True
            self._pipe.reading = False
            self._pipe.reader_closed = True
            self._loop.call_soon(self._call_connection_lost, None)

    def get_extra_info(self, name: str, default: T.Any = None) -> T.Any:
        return default


class SimPipeEnd:
    """Kernel side of a pipe: bytes written by the simulated process and not yet
    read by asyncio."""

    def __init__(self, sim: 'Sim', proc: 'SimProc', fd: int) -> None:
        self.sim = sim
        self.proc = proc
        self.fd = fd
        self.queue: T.List[bytes] = []   # b'' == EOF marker (always last)
        self.transport: T.Optional[SimReadPipe] = None
        self.reading = False
        self.reader_closed = False
        self.eof_written = False
        self.eof_time: T.Optional[float] = None
        self.token_pending = False
        self.written = bytearray()

    def write(self, data: bytes) -> None:
        if self.eof_written or not data:
            return
        self.written += data
        self.queue.append(data)
        self.kick()

    def write_eof(self) -> None:
        if self.eof_written:
            return
        self.eof_written = True
        self.eof_time = self.sim.loop._now
        self.queue.append(b'')
        self.sim.log('eof', pid=self.proc.pid, fd=self.fd)
        self.kick()

    def kick(self) -> None:
        """Make sure a readability notification is outstanding if data waits."""
        if self.queue and self.reading and not self.token_pending and self.transport is not None:
            self.token_pending = True
            self.sim.post(self.sim.loop._now, self._ready, kind='pipe')

    def _ready(self) -> T.Optional[T.Callable[[], None]]:
        self.token_pending = False
        if not (self.queue and self.reading and self.transport is not None):
            return None
        tr = self.transport

        def cb() -> None:
            tr._sim_readable()
            self.kick()
        return cb

    def pop_item(self, max_read: int) -> T.Optional[bytes]:
        if not self.queue:
            return None
        head = self.queue[0]
        if head == b'':
            self.queue.pop(0)
            return b''
        # coalesce like a real pipe would if the reader was slow
        if self.sim.coalesce:
            buf = bytearray()
            while self.queue and self.queue[0] != b'' and len(buf) < max_read:
                take = self.queue[0][:max_read - len(buf)]
                buf += take
                if len(take) == len(self.queue[0]):
                    self.queue.pop(0)
                else:
                    self.queue[0] = self.queue[0][len(take):]
            return bytes(buf)
        if len(head) > max_read:
            self.queue[0] = head[max_read:]
            return head[:max_read]
        self.queue.pop(0)
        return head


class SimProc:
    """Stands in for subprocess.Popen inside BaseSubprocessTransport."""

    def __init__(self, sim: 'Sim', pid: int, args: T.Sequence[str], stdout: T.Any, stderr: T.Any,
                 kwargs: T.Dict[str, T.Any], script: T.Dict[str, T.Any], ident: T.Any) -> None:
        self.sim = sim
        self.pid = pid
        self.args = list(args)
        self.returncode: T.Optional[int] = None
        self.script = script
        self.ident = ident
        self.spawn_time = sim.loop._now
        self.exit_time: T.Optional[float] = None
        self.stdin = None
        self.merge_stderr = stderr == asyncio.subprocess.STDOUT
        self.pipes: T.Dict[int, SimPipeEnd] = {}
        self.stdout = None
        self.stderr = None
        if stdout == asyncio.subprocess.PIPE:
            self.pipes[1] = SimPipeEnd(sim, self, 1)
            self.stdout = self.pipes[1]
        if stderr == asyncio.subprocess.PIPE:
            self.pipes[2] = SimPipeEnd(sim, self, 2)
            self.stderr = self.pipes[2]
        self.own_group = kwargs.get('preexec_fn') is not None or kwargs.get('start_new_session', False)
        self.transport: T.Optional['SimSubprocessTransport'] = None
        self.dying = False          # a fatal signal was accepted, death is scheduled
        self.killed = False         # ... and it was SIGKILL
        self.term_seen = False
        self.signals: T.List[T.Tuple[float, int, str]] = []
        self.orphan_alive = False   # a grandchild keeps pipes open after the main process exits
        self.group_kill = False

    # Popen API used by BaseSubprocessTransport
    def poll(self) -> T.Optional[int]:
        return self.returncode

    def send_signal(self, sig: int) -> None:
        self.sim.deliver_signal(self, sig, group=False, via='Popen.send_signal')

    def terminate(self) -> None:
        self.send_signal(signal.SIGTERM)

    def kill(self) -> None:
        self.send_signal(signal.SIGKILL)

    def wait(self, timeout: T.Optional[float] = None) -> T.Optional[int]:
        return self.returncode


class SimSubprocessTransport(base_subprocess.BaseSubprocessTransport):
    def _start(self, args: T.Any, shell: bool, stdin: T.Any, stdout: T.Any, stderr: T.Any,
               bufsize: int, **kwargs: T.Any) -> None:
        self._proc = self._loop.sim.spawn(args, stdin, stdout, stderr, kwargs)
        self._proc.transport = self


class SimLoop(base_events.BaseEventLoop):
    def __init__(self, sim: 'Sim') -> None:
        super().__init__()
        self.sim = sim
        sim.loop = self
        self._now = 0.0
        self._selector = _Selector(self)
        self._clock_resolution = 1e-9
        self._signal_handlers: T.Dict[int, T.Tuple[T.Callable[..., T.Any], T.Tuple[T.Any, ...]]] = {}
        self._steps = 0
        sim.arm_harness_signals()

    # clock
    def time(self) -> float:
        return self._now

    # BaseEventLoop plumbing
    def _process_events(self, event_list: T.List[T.Callable[[], None]]) -> None:
        for cb in event_list:
            self.call_soon(cb)

    def _write_to_self(self) -> None:
        pass

    def _sim_select(self, timeout: T.Optional[float]) -> T.List[T.Callable[[], None]]:
        sim = self.sim
        self._steps += 1
        if self._steps > sim.step_limit:
            raise SimStepLimit(f'more than {sim.step_limit} loop iterations')
        if timeout is not None and timeout <= 0:
            if not sim.eager:
                return []
            horizon = self._now
        elif timeout is None:
            horizon = None
        else:
            # exact: jump to the timer itself, not now+timeout (avoids float drift)
            horizon = self._scheduled[0]._when if self._scheduled else self._now + timeout
            if horizon < self._now:
                horizon = self._now
        out: T.List[T.Callable[[], None]] = []
        while True:
            nxt = sim.peek_time()
            if nxt is None or (horizon is not None and nxt > horizon):
                break
            if out and (not sim.batch or nxt > self._now):
                break
            if nxt > self._now:
                self._now = nxt
            cb = sim.pop_event()
            if cb is not None:
                out.append(cb)
            elif not out:
                # event produced nothing to deliver; keep looking, but do not
                # move the clock past anything
                continue
        if out:
            return out
        if horizon is None:
            if self._stopping or self._ready:
                return []
            raise SimDeadlock('event loop idle with no timer and no pending simulator event; tasks waiting: ' + self._describe_tasks())
        if horizon > self._now:
            self._now = horizon
        return []

    def _describe_tasks(self) -> str:
        import asyncio as _a
        import os
        out = []
        for t in sorted(_a.all_tasks(self), key=lambda t: t.get_name()):
            if t.done():
                continue
            chain = []
            obj = t.get_coro()
            for _ in range(12):
                fr = getattr(obj, 'cr_frame', None) or getattr(obj, 'gi_frame', None)
                if fr is not None:
                    chain.append(f'{os.path.basename(fr.f_code.co_filename)}:{fr.f_lineno}:{fr.f_code.co_name}')
                nxt = getattr(obj, 'cr_await', None) or getattr(obj, 'gi_yieldfrom', None)
                if nxt is None:
                    break
                if isinstance(nxt, _a.Future):
                    chain.append('waits for ' + type(nxt).__name__ + (':' + nxt.get_name() if isinstance(nxt, _a.Task) else ''))
                    break
                obj = nxt
            out.append('[' + ' -> '.join(chain) + ']')
        return '; '.join(out)[:3000]

    # signals
    def add_signal_handler(self, sig: int, callback: T.Callable[..., T.Any], *args: T.Any) -> None:
        self._signal_handlers[sig] = (callback, args)

    def remove_signal_handler(self, sig: int) -> bool:
        return self._signal_handlers.pop(sig, None) is not None

    def _sim_fire_signal(self, sig: int) -> T.Optional[T.Callable[[], None]]:
        h = self._signal_handlers.get(sig)
        if h is None:
            return None
        cb, args = h
        return lambda: cb(*args)

    # pipes and subprocesses
    def _make_read_pipe_transport(self, pipe: T.Any, protocol: asyncio.BaseProtocol,
                                  waiter: T.Optional[asyncio.Future] = None, extra: T.Any = None) -> SimReadPipe:
        return SimReadPipe(self, pipe, protocol, waiter)

    async def _make_subprocess_transport(self, protocol: T.Any, args: T.Any, shell: bool, stdin: T.Any,
                                         stdout: T.Any, stderr: T.Any, bufsize: int,
                                         extra: T.Any = None, **kwargs: T.Any) -> SimSubprocessTransport:
        waiter = self.create_future()
        transp = SimSubprocessTransport(self, protocol, args, shell, stdin, stdout, stderr, bufsize,
                                        waiter=waiter, extra=extra, **kwargs)
        try:
            await waiter
        except (SystemExit, KeyboardInterrupt):
            raise
        except BaseException:
            transp.close()
            await transp._wait()
            raise
        self.sim.on_started(transp._proc)
        return transp


class SimPolicy(asyncio.DefaultEventLoopPolicy):
    def __init__(self, sim: 'Sim') -> None:
        super().__init__()
        self._sim = sim

    def new_event_loop(self) -> SimLoop:
        return SimLoop(self._sim)


class Sim:
    """The simulator proper: event queue, processes, log."""

    EPOCH0 = 1_000_000.0

    def __init__(self, params: T.Dict[str, T.Any],
                 script_for: T.Callable[[T.Sequence[str], T.Dict[str, str]], T.Tuple[T.Any, T.Dict[str, T.Any]]]) -> None:
        self.params = params
        self.rng = random.Random(params.get('tie_seed', 0))
        self.tie_random = bool(params.get('tie_random', True))
        self.batch = bool(params.get('batch', False))
        self.eager = bool(params.get('eager', False))
        self.coalesce = bool(params.get('coalesce', False))
        self.step_limit = int(params.get('step_limit', 400000))
        self.script_for = script_for
        self.loop: SimLoop = None  # type: ignore[assignment]
        self.heap: T.List[T.Tuple[float, float, int, str, T.Callable[[], T.Optional[T.Callable[[], None]]]]] = []
        self.seq = 0           # scheduling sequence (heap stability)
        self.evseq = 0         # global event sequence number of the log
        self.events: T.List[T.Dict[str, T.Any]] = []
        self.procs: T.Dict[int, SimProc] = {}
        self.next_pid = 1000
        self.probes: T.Dict[str, int] = {}
        self.faults: T.Dict[str, int] = {}
        self.listeners: T.List[T.Callable[[T.Dict[str, T.Any]], None]] = []
        self.harness_signals = list(params.get('harness_signals', []))

    # ---- bookkeeping
    def probe(self, name: str, n: int = 1) -> None:
        self.probes[name] = self.probes.get(name, 0) + n

    def fault(self, name: str, n: int = 1) -> None:
        self.faults[name] = self.faults.get(name, 0) + n

    def log(self, kind: str, **kw: T.Any) -> None:
        self.evseq += 1
        ev = {'seq': self.evseq, 't': round(self.loop._now if self.loop else 0.0, 9), 'kind': kind}
        ev.update(kw)
        self.events.append(ev)
        for l in self.listeners:
            l(ev)

    # ---- event queue
    def post(self, when: float, fn: T.Callable[[], T.Optional[T.Callable[[], None]]], kind: str = '',
             tb: T.Optional[float] = None) -> float:
        self.seq += 1
        if tb is None:
            tb = self.rng.random() if self.tie_random else 0.0
        heapq.heappush(self.heap, (when, tb, self.seq, kind, fn))
        return tb

    def peek_time(self) -> T.Optional[float]:
        return self.heap[0][0] if self.heap else None

    def pop_event(self) -> T.Optional[T.Callable[[], None]]:
        when, _, _, kind, fn = heapq.heappop(self.heap)
        return fn()

    # ---- processes
    def spawn(self, args: T.Sequence[str], stdin: T.Any, stdout: T.Any, stderr: T.Any,
              kwargs: T.Dict[str, T.Any]) -> SimProc:
        env = kwargs.get('env') or {}
        ident, script = self.script_for(args, env)
        self.next_pid += 1
        p = SimProc(self, self.next_pid, args, stdout, stderr, kwargs, script, ident)
        self.procs[p.pid] = p
        self.log('spawn', pid=p.pid, ident=ident, argv=list(args)[-3:], fds=sorted(p.pipes))
        t0 = self.loop._now
        # A script is one sequential program: its own events keep script order
        # even when they share an instant (same tie-break, scheduling order decides);
        # only events of *different* processes are tie-ordered by the PRNG.
        tbs: T.Dict[float, float] = {}

        def tb_for(t: float) -> float:
            if t not in tbs:
                tbs[t] = self.rng.random() if self.tie_random else 0.0
            return tbs[t]
        for item in sorted(script.get('out', []), key=lambda o: o[0]):
            t, fd, data = item[0], item[1], item[2]
            if isinstance(data, str):
                data = data.encode('utf-8', 'surrogateescape')
            self.post(t0 + t, self._mk_write(p, fd, data), kind='write', tb=tb_for(t))
        eofs = script.get('eof', {})
        dur = script.get('dur')
        for fd in (1, 2):
            te = eofs.get(str(fd), eofs.get(fd))
            if te is not None and (dur is None or te < dur):
                self.post(t0 + te, self._mk_eof(p, fd, scripted=True), kind='eof', tb=tb_for(te))
        if dur is not None:
            self.post(t0 + dur, self._mk_exit(p, script.get('code', 0), natural=True), kind='exit', tb=tb_for(dur))
        for fd in (1, 2):
            te = eofs.get(str(fd), eofs.get(fd))
            if te is not None and dur is not None and te >= dur:
                self.post(t0 + te, self._mk_eof(p, fd, scripted=True), kind='eof', tb=tb_for(te))
        return p

    def on_started(self, p: SimProc) -> None:
        pass

    def _mk_write(self, p: SimProc, fd: int, data: bytes) -> T.Callable[[], None]:
        def f() -> None:
            if p.returncode is not None and not p.orphan_alive:
                return None
            if p.killed and not p.script.get('eof'):
                # SIGKILL has been delivered: the process executes nothing any more, even if the kernel takes a
                # moment (kill_delay) to reap it. (Scripts with a later EOF model a grandchild that lives on.)
                return None
            tgt = 1 if (fd == 2 and p.merge_stderr) else fd
            pipe = p.pipes.get(tgt)
            if pipe is not None:
                pipe.write(data)
            return None
        return f

    def _mk_eof(self, p: SimProc, fd: int, scripted: bool) -> T.Callable[[], None]:
        def f() -> None:
            pipe = p.pipes.get(fd)
            if pipe is not None:
                pipe.write_eof()
            if all(pp.eof_written for pp in p.pipes.values()):
                p.orphan_alive = False
            return None
        return f

    def _mk_exit(self, p: SimProc, code: int, natural: bool) -> T.Callable[[], T.Optional[T.Callable[[], None]]]:
        def f() -> T.Optional[T.Callable[[], None]]:
            if p.returncode is not None:
                return None
            if natural and p.dying:
                # already condemned by a signal; whichever comes first wins
                pass
            p.returncode = code
            p.exit_time = self.loop._now
            self.log('exit', pid=p.pid, ident=p.ident, rc=code)
            eofs = p.script.get('eof', {})
            killed_group = (not natural) and p.group_kill
            for fd, pipe in p.pipes.items():
                te = eofs.get(str(fd), eofs.get(fd))
                holds = te is not None and p.spawn_time + te > self.loop._now
                if holds and not killed_group:
                    p.orphan_alive = True   # scripted later EOF: a grandchild holds the pipe
                    self.probe('orphan-holds-pipe')
                else:
                    pipe.write_eof()
            tr = p.transport

            def cb() -> None:
                if tr is not None:
                    tr._process_exited(code)
            return cb
        return f

    def deliver_signal(self, p: SimProc, sig: int, group: bool, via: str) -> None:
        now = self.loop._now
        self.log('signal', pid=p.pid, ident=p.ident, sig=int(sig), via=via, alive=p.returncode is None)
        p.signals.append((now, int(sig), via))
        if p.returncode is not None and not p.orphan_alive:
            raise ProcessLookupError(3, 'No such process')
        if p.returncode is not None and not group:
            raise ProcessLookupError(3, 'No such process')
        sc = p.script
        if sig == signal.SIGKILL:
            if p.returncode is None:
                p.killed = True
            delay = sc.get('kill_delay', 0.0)
            self._condemn(p, now + delay, -int(signal.SIGKILL), group)
        elif sig == signal.SIGTERM:
            mode = sc.get('term', 'die')
            if mode == 'ignore':
                self.fault('sigterm-ignored')
                return
            delay = sc.get('term_delay', 0.0)
            code = -int(signal.SIGTERM) if mode == 'die' else int(sc.get('term_code', 0))
            self._condemn(p, now + delay, code, group)
        else:
            self._condemn(p, now, -int(sig), group)

    def _condemn(self, p: SimProc, when: float, code: int, group: bool) -> None:
        p.group_kill = group
        if p.returncode is None:
            if not p.dying:
                p.dying = True
                self.post(when, self._mk_exit(p, code, natural=False), kind='exit')
            else:
                # an earlier fatal signal is pending; a SIGKILL may pre-empt it
                self.post(when, self._mk_exit(p, code, natural=False), kind='exit')
        elif p.orphan_alive and group:
            # main process gone, the group's stragglers die and release the pipes
            def f() -> None:
                for pipe in p.pipes.values():
                    pipe.write_eof()
                p.orphan_alive = False
                return None
            self.post(when, f, kind='eof')

    def killpg(self, pgid: int, sig: int) -> None:
        p = self.procs.get(pgid)
        if p is None:
            raise ProcessLookupError(3, 'No such process')
        self.deliver_signal(p, sig, group=True, via='killpg')

    # ---- signals to the harness itself
    def arm_harness_signals(self) -> None:
        for t, sig in self.harness_signals:
            def f(sig: int = sig) -> T.Optional[T.Callable[[], None]]:
                self.log('harness-signal', sig=int(sig))
                self.fault('harness-signal')
                return self.loop._sim_fire_signal(sig)
            self.post(t, f, kind='hsig')

