"""Running meson commands of the tree under test, in-process inside a forked child."""
from __future__ import annotations

import os
import typing as T

from . import env as E
from .forkrun import forkrun


def warm() -> None:
    """Import the heavy modules once in the host so forked children start warm."""
    E.use_tree()
    import mesonbuild.mesonmain  # noqa: F401
    import mesonbuild.msetup  # noqa: F401
    import mesonbuild.mconf  # noqa: F401
    import mesonbuild.mintro  # noqa: F401
    import mesonbuild.mtest  # noqa: F401
    import mesonbuild.minstall  # noqa: F401
    import mesonbuild.interpreter  # noqa: F401
    import mesonbuild.backend.ninjabackend  # noqa: F401
    import mesonbuild.backend.nonebackend  # noqa: F401
    import mesonbuild.compilers  # noqa: F401
    import mesonbuild.wrap.wrap  # noqa: F401
    import mesonbuild.msubprojects  # noqa: F401
    import mesonbuild.scripts.uninstall  # noqa: F401
    import mesonbuild.modules.pkgconfig  # noqa: F401


def _meson_main(args: T.List[str]) -> int:
    from mesonbuild import mesonmain
    return mesonmain.run(list(args), E.meson_py())


BASE_ENV_KEEP = ('PATH', 'HOME', 'LANG', 'LC_ALL', 'TMPDIR')


def clean_env(extra: T.Optional[T.Dict[str, str]] = None) -> T.Dict[str, str]:
    env = {k: os.environ[k] for k in BASE_ENV_KEEP if k in os.environ}
    env.setdefault('PATH', '/usr/local/bin:/usr/bin:/bin')
    env['LC_ALL'] = 'C.UTF-8'
    env['PYTHONHASHSEED'] = '0'
    env['PYTHONDONTWRITEBYTECODE'] = '1'
    if extra:
        env.update(extra)
    return env


def meson(args: T.List[str], capture: str, cwd: T.Optional[str] = None,
          env: T.Optional[T.Dict[str, str]] = None, timeout: float = 120.0,
          pre: T.Optional[T.Callable[[], None]] = None,
          umask: T.Optional[int] = None) -> T.Dict[str, T.Any]:
    """Run `meson <args>` in a forked child. Returns forkrun's dict; 'value' is the
    exit status (int) when the command returned normally."""
    def body() -> int:
        if pre is not None:
            pre()
        return _meson_main(args)
    r = forkrun(body, timeout=timeout, capture=capture, cwd=cwd, env=env if env is not None else clean_env(), umask=umask)
    if r['ok'] and isinstance(r['value'], tuple) and r['value'][0] == 'SystemExit':
        code = r['value'][1]
        r['value'] = code if isinstance(code, int) else (0 if code is None else 1)
    return r
