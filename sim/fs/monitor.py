"""PEP 578 audit-hook monitor: records every file-system mutation an in-process
command performs (call inside the forked child before running the command)."""
from __future__ import annotations

import os
import sys
import typing as T

WRITE_FLAGS = os.O_WRONLY | os.O_RDWR | os.O_CREAT | os.O_TRUNC | os.O_APPEND


def install() -> T.List[T.Dict[str, T.Any]]:
    events: T.List[T.Dict[str, T.Any]] = []

    def absp(p: T.Any, dir_fd: T.Any = None) -> str:
        if isinstance(p, int):
            try:
                return os.readlink(f'/proc/self/fd/{p}')
            except OSError:
                return f'<fd {p}>'
        if isinstance(p, bytes):
            p = os.fsdecode(p)
        p = os.fspath(p)
        if not os.path.isabs(p):
            base = os.getcwd()
            if isinstance(dir_fd, int) and dir_fd >= 0:
                try:
                    base = os.readlink(f'/proc/self/fd/{dir_fd}')
                except OSError:
                    pass
            p = os.path.join(base, p)
        return os.path.normpath(p)

    def hook(event: str, args: T.Tuple[T.Any, ...]) -> None:
        try:
            if event == 'open':
                path, mode, flags = args[0], args[1], args[2]
                if isinstance(flags, int) and (flags & WRITE_FLAGS) and path is not None:
                    events.append({'op': 'open-write', 'path': absp(path)})
            elif event in ('os.mkdir', 'os.remove', 'os.rmdir', 'os.chmod', 'os.chown', 'os.utime', 'os.truncate', 'os.chflags',
                           'os.mkfifo', 'os.mknod', 'os.setxattr', 'os.removexattr'):
                dir_fd = args[-1] if event in ('os.mkdir', 'os.remove', 'os.rmdir', 'os.utime') or (event in ('os.chmod', 'os.chown') and len(args) >= 3) else None
                events.append({'op': event[3:], 'path': absp(args[0], dir_fd if isinstance(dir_fd, int) else None)})
            elif event == 'os.rename':
                events.append({'op': 'rename', 'path': absp(args[0], args[2] if len(args) > 2 else None),
                               'path2': absp(args[1], args[3] if len(args) > 3 else None)})
            elif event == 'os.symlink':
                events.append({'op': 'symlink', 'path': absp(args[1], args[2] if len(args) > 2 else None), 'target': os.fspath(args[0])})
            elif event == 'os.link':
                events.append({'op': 'link', 'path': absp(args[1]), 'path2': absp(args[0])})
            elif event in ('shutil.copyfile', 'shutil.copymode', 'shutil.copystat', 'shutil.move', 'shutil.copytree'):
                events.append({'op': event, 'path': absp(args[1]), 'src': absp(args[0])})
            elif event == 'shutil.rmtree':
                events.append({'op': 'rmtree', 'path': absp(args[0])})
            elif event == 'subprocess.Popen':
                events.append({'op': 'spawn', 'path': str(args[0]), 'argv': [str(a) for a in (args[1] or [])][:6]})
        except Exception as e:  # never let the monitor disturb the monitored
            events.append({'op': 'monitor-error', 'path': repr(e)})

    sys.addaudithook(hook)
    return events
