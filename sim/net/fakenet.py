"""In-process stand-in for the network and the clock as seen by wrap.py.

`install(world)` (call inside the forked child) patches
  urllib.request.urlopen  -> scripted per-URL responses
  time.sleep              -> advances a simulated clock, never sleeps
  shutil.unpack_archive   -> records the SHA-256 of the archive *at call time*, then delegates
and returns a log object that the child hands back to the harness.
"""
from __future__ import annotations

import hashlib
import io
import typing as T


class FakeResponse:
    def __init__(self, body: bytes, content_length: T.Optional[int]) -> None:
        self._io = io.BytesIO(body)
        self._cl = content_length

    def info(self) -> T.Dict[str, T.Any]:
        return {'Content-Length': None if self._cl is None else str(self._cl)}

    def read(self, n: int = -1) -> bytes:
        return self._io.read(n)

    def close(self) -> None:
        pass


class NetLog:
    def __init__(self) -> None:
        self.requests: T.List[T.Dict[str, T.Any]] = []
        self.sleeps: T.List[float] = []
        self.unpacks: T.List[T.Dict[str, T.Any]] = []
        self.faults: T.Dict[str, int] = {}

    def fault(self, k: str) -> None:
        self.faults[k] = self.faults.get(k, 0) + 1

    def as_dict(self) -> T.Dict[str, T.Any]:
        return {'requests': self.requests, 'sleeps': self.sleeps, 'unpacks': self.unpacks, 'faults': self.faults,
                'sim_time': sum(self.sleeps)}


def install(bodies: T.Dict[str, bytes], script: T.Dict[str, T.List[str]], other_body: bytes) -> NetLog:
    """bodies: url -> the correct archive; script: url -> list of response kinds consumed one per
    request ('ok' forever once the list is exhausted)."""
    import shutil
    import time
    import urllib.error
    import urllib.request

    log = NetLog()
    counters: T.Dict[str, int] = {}

    def fake_urlopen(req: T.Any, *a: T.Any, **kw: T.Any) -> FakeResponse:
        url = req.full_url if hasattr(req, 'full_url') else str(req)
        i = counters.get(url, 0)
        counters[url] = i + 1
        seq = script.get(url, [])
        kind = seq[i] if i < len(seq) else 'ok'
        log.requests.append({'url': url, 'n': i, 'kind': kind, 't': sum(log.sleeps)})
        if url not in bodies:
            log.fault('net-404')
            raise urllib.error.URLError('no such host (simulated)')
        body = bodies[url]
        if kind == 'err':
            log.fault('net-urlerror')
            raise urllib.error.URLError('connection refused (simulated)')
        if kind == 'oserr':
            log.fault('net-oserror')
            raise OSError(104, 'Connection reset by peer (simulated)')
        if kind == 'trunc':
            log.fault('net-truncated-body')
            return FakeResponse(body[:max(0, len(body) // 2)], len(body))
        if kind == 'flip':
            log.fault('net-flipped-byte')
            b = bytearray(body)
            if b:
                b[len(b) // 3] ^= 0x20
            return FakeResponse(bytes(b), len(b))
        if kind == 'other':
            log.fault('net-different-archive')
            return FakeResponse(other_body, len(other_body))
        if kind == 'nolen':
            return FakeResponse(body, None)
        return FakeResponse(body, len(body))

    def fake_sleep(d: float) -> None:
        log.sleeps.append(float(d))

    real_unpack = shutil.unpack_archive

    def spy_unpack(filename: T.Any, extract_dir: T.Any = None, *a: T.Any, **kw: T.Any) -> T.Any:
        p = str(filename)
        try:
            with open(p, 'rb') as f:
                dig = hashlib.sha256(f.read()).hexdigest()
        except OSError:
            dig = 'unreadable'
        who = None
        try:
            import sys
            who = getattr(getattr(sys._getframe(1).f_locals.get('self'), 'wrap', None), 'name', None)     # observation only: whose archive this is
        except Exception:
            who = None
        log.unpacks.append({'path': p, 'sha256': dig, 'to': str(extract_dir), 'wrap': who})
        return real_unpack(filename, extract_dir, *a, **kw)

    urllib.request.urlopen = fake_urlopen      # type: ignore[assignment]
    time.sleep = fake_sleep                    # type: ignore[assignment]
    shutil.unpack_archive = spy_unpack         # type: ignore[assignment]
    return log
