"""One integer decides everything.

Every random choice in generators and simulators comes from a `random.Random`
derived from (VERIF_SEED, property, tier, index, purpose) through SHA-256.
No other entropy source is read anywhere in /verif.
"""
from __future__ import annotations

import hashlib
import json
import os
import random
import typing as T


def base_seed() -> int:
    try:
        return int(os.environ.get('VERIF_SEED', '1'))
    except ValueError:
        return 1


def derive(*parts: T.Any) -> random.Random:
    h = hashlib.sha256(json.dumps(parts, sort_keys=True, default=str).encode()).digest()
    return random.Random(int.from_bytes(h[:16], 'big'))


def derive_int(*parts: T.Any) -> int:
    h = hashlib.sha256(json.dumps(parts, sort_keys=True, default=str).encode()).digest()
    return int.from_bytes(h[:8], 'big')


def digest(obj: T.Any) -> str:
    return hashlib.sha256(json.dumps(obj, sort_keys=True, default=str).encode()).hexdigest()


def short(obj: T.Any, n: int = 16) -> str:
    return digest(obj)[:n]


def weighted(rng: random.Random, items: T.Sequence[T.Tuple[T.Any, float]]) -> T.Any:
    tot = sum(w for _, w in items)
    x = rng.random() * tot
    acc = 0.0
    for v, w in items:
        acc += w
        if x < acc:
            return v
    return items[-1][0]
