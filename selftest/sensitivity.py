"""Sensitivity self-test: apply each mutant (a realistic regression that keeps
the pinned suite green) to a scratch copy of the tree and confirm that the
property's check reports a violation.

  ./check selftest-sensitivity [C12 ...] [--tier quick|thorough]
"""
from __future__ import annotations

import json
import os
import shutil
import subprocess
import sys
import tempfile
import time
import typing as T

from sim.core import env as E


def make_copy() -> str:
    d = tempfile.mkdtemp(prefix='verif-mut-', dir=E.scratch_root())
    src = E.repo_dir()
    shutil.copytree(os.path.join(src, 'mesonbuild'), os.path.join(d, 'mesonbuild'),
                    ignore=shutil.ignore_patterns('__pycache__'))
    shutil.copy2(os.path.join(src, 'meson.py'), os.path.join(d, 'meson.py'))
    for extra in ('test cases', 'data', 'cross'):
        if os.path.exists(os.path.join(src, extra)):
            os.symlink(os.path.join(src, extra), os.path.join(d, extra))
    return d


def apply(copy: str, m: T.Dict[str, T.Any]) -> None:
    for ed in m['edits']:
        p = os.path.join(copy, ed['file'])
        with open(p, encoding='utf-8') as f:
            s = f.read()
        if s.count(ed['old']) != 1:
            raise RuntimeError(f"mutant {m['id']}: pattern occurs {s.count(ed['old'])} times in {ed['file']}")
        with open(p, 'w', encoding='utf-8') as f:
            f.write(s.replace(ed['old'], ed['new']))


def main(a: T.Any) -> int:
    with open(os.path.join(E.VERIF_DIR, 'selftest', 'mutants.json')) as f:
        mutants = json.load(f)
    want = set(a.rest)
    rows = []
    for m in mutants:
        if want and m['property'] not in want and m['id'] not in want:
            continue
        copy = make_copy()
        try:
            try:
                apply(copy, m)
            except RuntimeError as e:
                # a later fix commit changed the mutated lines: reported, the other mutants still run
                rows.append((m['id'], m['property'], 'STALE', str(e), 0.0))
                print(f"{m['id']:<34} {m['property']} {a.tier:<8} STALE         {e}", flush=True)
                continue
            env = dict(os.environ, VERIF_REPO=copy, VERIF_EVIDENCE_DIR=os.path.join(copy, 'evidence'))
            if a.tier == 'thorough':
                env.setdefault('VERIF_BUDGET_S', '240')
            t0 = time.time()
            r = subprocess.run([E.PYTHON, os.path.join(E.VERIF_DIR, 'check'), m['property'], '--tier', a.tier],
                               capture_output=True, text=True, env=env, timeout=7200)
            dt = time.time() - t0
            vio = [l for l in r.stdout.splitlines() if l.startswith('VIOLATION')]
            cls = [l.strip().split(' ')[0] for l in r.stdout.splitlines() if l.strip().startswith('class=')]
            res = 'DETECTED' if r.returncode == 1 and vio else ('HARNESS-ERROR' if r.returncode == 2 else 'missed')
            rows.append((m['id'], m['property'], res, ','.join(sorted(set(cls))), round(dt, 1)))
            print(f"{m['id']:<34} {m['property']} {a.tier:<8} {res:<13} {','.join(sorted(set(cls)))} ({dt:.0f}s)", flush=True)
            if res == 'HARNESS-ERROR':
                print(r.stderr[-1500:])
        finally:
            shutil.rmtree(copy, ignore_errors=True)
    missed = [r for r in rows if r[2] != 'DETECTED']
    print(f'{len(rows) - len(missed)}/{len(rows)} mutants detected')
    return 0 if not missed else 1
