"""C11 - installation is confined to DESTDIR, exact, and reversible.

Histories of install / reinstall / --only-changed / --dry-run / --tags /
--skip-subprojects / uninstall steps over one DESTDIR, each step in a forked
child whose every file-system mutation is recorded through an audit hook;
simulator-owned conditions: ambient umask, mtime skew between sources and
installed copies, pre-populated DESTDIR, DESTDIR via env or --destdir.
"""
from __future__ import annotations

import copy
import json
import os
import subprocess
import re
import random
import shutil
import typing as T

from sim.core import env as E
from sim.core import prng
from sim.core import runner as R
from sim.core import mesonrun as M
from sim.core.forkrun import forkrun, ChildTimeout, ChildCrashed
from sim.fs import monitor
from models import install_ref as IR


def q(s: str) -> str:
    return "'" + s.replace('\\', '\\\\').replace("'", "\\'") + "'"


def lst(items: T.Sequence[str]) -> str:
    return '[' + ', '.join(q(i) for i in items) + ']'


NAMES = ['alpha', 'be ta', 'gämma', 'delta.d', 'e-psilon', 'zeta_1', 'ηta', ' lead', '#hash', "quo'te"]


class Check:
    id = 'C11'
    level = 'exploration'
    quick_n = 500
    thorough_budget_s = 900
    scenario_wall_limit = 300.0
    shrink_runs = 200
    rule = ('scenario = generated project (top + subproject) with install_data (rename, install_mode, install_tag, relative/absolute/default '
            'install_dir, symbolic links among the sources with follow_symlinks), install_headers(subdir), install_man, install_subdir (nested tree, exclude_files/exclude_directories, '
            'strip_directory), install_emptydir, install_symlink, installed custom_target outputs (also several outputs with one install_dir/install_tag each, `false` = not installed), installed configure_file() outputs and compiled build targets; names with spaces and non-ASCII; prefix, install_umask incl. preserve; '
            '+ a history of install / reinstall / --only-changed / --dry-run / --tags / --skip-subprojects / uninstall steps with '
            'simulator-chosen ambient umask, mtime skew (source older/equal/newer than the installed copy), pre-populated DESTDIR and '
            'DESTDIR given through the environment or --destdir (absolute or relative), and an obstacle fault (a directory of the user where a '
            'file is to go: the install aborts half-way, what it created must be logged and removable). Non-trivial: >=2 steps, or DESTDIR pre-populated, '
            'or an mtime skew decided --only-changed. Distinct by hash of (op sequence, rule kinds present).')
    interleaving_measure = 'hash of the op sequence with options'
    engine_desc = {
        'real': ['backends.create_install_data at setup (none backend)', 'minstall.Installer', 'scripts/uninstall.py', 'real file system under a scratch root'],
        'stub': ['none; every mutation is observed through sys.addaudithook inside the forked child'],
    }
    assumptions = [
        'runs as root in the sandbox: containment is observed at the audit seam, not enforced by permissions; owner/group install_mode fields are not generated',
        'every rule carries an explicit install_tag when --tags is exercised (automatic tagging by directory is not modelled); headers are devel, man pages are man',
        'compiled build targets (executable / shared library with version+soversion aliases / static library; install_dir, install_mode, install_tag, install_rpath) are in about one scenario in eight: built for real through the C05 reference executor, judged as the built file up to the rewritten run path (size, <=96 differing bytes, RUNPATH via readelf); --strip and both_libraries are not generated',
    ]

    def prepare(self, tier: str) -> None:
        M.warm()

    # ------------------------------------------------------------------ generation
    def generate(self, rng: random.Random, tier: str, index: int) -> T.Dict[str, T.Any]:
        spec: T.Dict[str, T.Any] = {
            'prefix': rng.choice(['/usr', '/usr/local', '/opt/my app', '/']),
            'umask': rng.choice(['022', '022', '027', '002', '077', 'preserve']),
            'rules': [],
        }
        have_sub = rng.random() < 0.5
        nrules = rng.randint(1, 7 if tier == 'quick' else 12)
        tagset = [None, 't1', 't2', 'runtime']
        for i in range(nrules):
            kind = rng.choice(['data', 'data', 'headers', 'man', 'subdir', 'subdir', 'emptydir', 'symlink', 'ctarget'])
            sub = have_sub and rng.random() < 0.3 and kind in ('data', 'headers', 'emptydir')
            rule: T.Dict[str, T.Any] = {'kind': kind, 'sub': sub, 'id': i}
            if kind == 'data':
                n = rng.randint(1, 3)
                rule['files'] = [{'name': f'r{i}_{rng.choice(NAMES)}_{k}.txt', 'exec': rng.random() < 0.2} for k in range(n)]
                if rng.random() < 0.2:
                    rule['preserve_path'] = True
                    rule['files'] = [{'name': f'pp{i}/lvl{k}/' + f['name'], 'exec': f['exec']} for k, f in enumerate(rule['files'])]
                rule['dir'] = rng.choice([None, f'share/d{i}', 'share/common', f'/etc/conf {i}', '/var/lib/x', 'libexec/y', f'share/ünï{i}'])
                if rng.random() < 0.25 and not rule.get('preserve_path'):
                    rule['rename'] = [f'renamed{i}_{k}' + rng.choice(['', '.cfg', ' with space', ' trailing ']) for k in range(n)]
                if not rule.get('preserve_path') and not rule.get('rename') and rng.random() < 0.2:
                    # a symbolic link among the sources: to a sibling that is installed next to it, or to a file outside
                    # DESTDIR (of the user's); follow_symlinks: false installs it as a link, otherwise its target is copied
                    rule['follow'] = rng.choice([False, False, False, None, True])
                    to = rng.choice(['sibling', 'sibling', 'victim']) if rule['follow'] is False else 'sibling'
                    rule['files'].append({'name': f'r{i}_lnk', 'link_to': os.path.basename(rule['files'][0]['name']) if to == 'sibling' else '@VICTIM@/victim.cfg',
                                          'link_kind': to})
                rule['mode'] = rng.choice([None, None, 'rwxr-x---', 'rw-r-----', 'rw-rw-rw-', 'r--r--r--', 'rwsr-xr-x', 'rwxr-sr-x'])   # (a sticky bit on files is dropped by meson with a deprecation notice: not generated)
                rule['tag'] = rng.choice(tagset)
            elif kind == 'headers':
                n = rng.randint(1, 3)
                rule['files'] = [{'name': f'r{i}_hdr{k}.h'} for k in range(n)]
                rule['subdir'] = rng.choice([None, f'inc{i}', 'deep/er'])
                if rng.random() < 0.25:
                    rule['preserve_path'] = True
                    rule['files'] = [{'name': f'hp{i}/n{k}/' + f['name']} for k, f in enumerate(rule['files'])]
            elif kind == 'man':
                rule['files'] = [{'name': f'r{i}_tool.{rng.choice("158")}'} for _ in range(rng.randint(1, 2))]
                rule['files'] = list({f['name']: f for f in rule['files']}.values())
                rule['locale'] = rng.choice([None, None, 'de', 'pt_BR'])
            elif kind == 'subdir':
                rule['name'] = f'tree{i}'
                dirs = [d for d in ['a', 'a/b', 'c dir', 'emptyd'] if rng.random() < 0.6]
                dirs = [d for d in dirs if '/' not in d or os.path.dirname(d) in dirs]
                entries = []
                for d in [''] + [d for d in dirs if d != 'emptyd']:
                    for k in range(rng.randint(0, 2)):
                        entries.append({'name': (d + '/' if d else '') + f'f{k}_{rng.choice(NAMES)}.dat', 'exec': rng.random() < 0.15})
                if not entries:
                    entries.append({'name': 'only.dat'})
                rule['dirs'] = dirs
                rule['entries'] = entries
                rule['dir'] = rng.choice([f'share/t{i}', 'share/common', f'/srv/tree {i}'])
                rule['strip'] = rng.random() < 0.3
                if rng.random() < 0.3:
                    rule['exclude_files'] = [e['name'] for e in entries if rng.random() < 0.3]
                if rng.random() < 0.3 and dirs:
                    rule['exclude_dirs'] = [rng.choice(dirs)]
                rule['mode'] = rng.choice([None, None, 'rw-r--r--', 'rwxr-xr-x'])
                rule['tag'] = rng.choice(tagset)
            elif kind == 'ctarget':
                rule['name'] = f'gen{i}' + rng.choice(['.dat', ' out.bin', '.sh'])
                rule['exec'] = rule['name'].endswith('.sh')
                rule['dir'] = rng.choice([f'share/g{i}', 'libexec/gen', f'/opt/gen {i}'])
                rule['mode'] = rng.choice([None, None, 'rwxr-xr-x', 'rw-------'])
                rule['tag'] = rng.choice(tagset)
            elif kind == 'emptydir':
                rule['path'] = rng.choice([f'var/lib/e{i}', f'/var/spool/e {i}', f'share/empty{i}/nested'])
                rule['mode'] = rng.choice([None, 'rwxr-x---', 'rwxrwxrwx', 'rwx------'])
                rule['tag'] = rng.choice(tagset)
            elif kind == 'symlink':
                rule['name'] = f'link{i}' + rng.choice(['', ' sp'])
                rule['target'] = rng.choice(['../share/common/x', '/etc/alternatives/y', 'sibling', 'dangling target'])
                rule['dir'] = rng.choice(['bin2', f'share/l{i}', '/usr/links'])
                rule['tag'] = rng.choice(tagset)
            spec['rules'].append(rule)
        # compiled build targets with install: true (a fraction of the scenarios: they need the C compiler and a build)
        if rng.random() < (0.12 if tier == 'quick' else 0.2):
            libs: T.List[T.Dict[str, T.Any]] = []
            base_i = len(spec['rules'])
            for j in range(rng.randint(1, 4)):
                tt = rng.choice(['exe', 'shlib', 'shlib', 'stlib'])
                rule = {'kind': 'target', 'sub': False, 'id': base_i + j, 'ttype': tt, 'name': f'tg{j}' + (rng.choice(['', ' tool']) if tt == 'exe' else ''),
                        'dir': rng.choice([None, None, None, f'libexec/t{j}', f'/opt/tg {j}']),
                        'mode': rng.choice([None, None, None, 'rwxr-x---', 'rwx------', 'rw-r--r--']),
                        'tag': rng.choice([None, None, None, 't1', 't2'])}
                if tt == 'shlib':
                    rule['version'] = rng.choice([None, '1.2.3', '4.5.6', '2'])
                    rule['soversion'] = rng.choice([None, None, '1', '7'])
                if tt == 'exe':
                    rule['links'] = [l['name'] for l in libs if rng.random() < 0.6]
                    rule['rpath'] = rng.choice([None, None, '/opt/my lib', '$ORIGIN/../lib'])
                else:
                    libs.append(rule)
                spec['rules'].append(rule)
        # some symlinks point at a directory (or a file) that the same project installs
        for rule in spec['rules']:
            if rule['kind'] != 'symlink' or rng.random() >= 0.5:
                continue
            dirs = [r_ for r_ in spec['rules'] if r_['kind'] == 'emptydir' and not r_['path'].startswith('/') and not r_.get('sub')]
            datas = [r_ for r_ in spec['rules'] if r_['kind'] == 'data' and r_.get('dir') and not r_['dir'].startswith('/') and not r_.get('sub') and not r_.get('rename')]
            if dirs and rng.random() < 0.6:
                d = rng.choice(dirs)
                rule['dir'] = os.path.dirname(d['path']) or '.'
                rule['target'] = os.path.basename(d['path'])
                rule['tag'] = d.get('tag')
            elif datas:
                d = rng.choice(datas)
                rule['dir'] = d['dir']
                rule['target'] = os.path.basename(d['files'][0]['name'])
                rule['tag'] = d.get('tag')
        # destination paths must not collide (two rules installing the same path is a project bug, not what is tested)
        seen: T.Set[str] = set()
        uniq_rules = []
        for rule in spec['rules']:
            t = IR.expected_tree({'prefix': spec['prefix'], 'umask': '022', 'rules': [rule]}, '/D', {}, 0o022)
            paths = {p for p, it in t.items.items() if it[0] != 'dir'} | ({p for p, it in t.items.items() if rule['kind'] in ('emptydir', 'subdir')})
            files_only = {p for p, it in t.items.items() if it[0] != 'dir'}
            if files_only & seen or any(p in seen for p in paths if t.items[p][0] != 'dir') or \
                    any(s.startswith(p + '/') or p.startswith(s + '/') for p in files_only for s in seen):
                continue
            if rule['kind'] == 'subdir' and any(s.startswith(p + '/') for p in paths for s in seen):
                continue
            seen |= files_only
            if rule['kind'] in ('emptydir',):
                seen |= {p for p, it in t.items.items() if it[0] == 'dir' and p.endswith(os.path.basename(rule['path']))}
            uniq_rules.append(rule)
        spec['rules'] = uniq_rules or spec['rules'][:1]
        # ---- added late, drawn from a stream of their own so that the scenarios of earlier versions stay what they were:
        # custom targets with several outputs (install_dir / install_tag per output, `false` = not installed) and
        # installed configure_file() outputs
        rx = prng.derive(prng.base_seed(), 'c11-extra', tier, index)
        for r_ in spec['rules']:
            if r_['kind'] == 'ctarget' and rx.random() < 0.5:
                r_['outs'] = [{'name': f"gx{r_['id']}_{k}" + rx.choice(['.dat', ' x.bin']),
                               'dir': rx.choice([False, f"share/gx{r_['id']}", 'libexec/gen', f"/opt/gx {r_['id']}", r_['dir']]),
                               'tag': rx.choice(tagset)} for k in range(rx.randint(1, 3))]
                r_['dir_listed'] = True
                if all(o['dir'] == r_['dir'] and o['tag'] == r_.get('tag') for o in r_['outs']) and rx.random() < 0.5:
                    r_['dir_listed'] = False           # one install_dir / install_tag for all the outputs
        # an install_emptydir() with a mode of its own for a directory that exists by the time empty directories are made:
        # another rule installs into it (or below it), or an earlier install_emptydir() named a child of it
        if rx.random() < 0.35:
            hosts = [r_['dir'] for r_ in spec['rules'] if r_['kind'] == 'subdir'] + \
                    [os.path.dirname(r_['path']) for r_ in spec['rules'] if r_['kind'] == 'emptydir' and os.path.dirname(r_['path']) not in ('', '/', 'share', 'var', 'var/lib', '/var', '/var/spool')]
            taken = {r_['path'] for r_ in spec['rules'] if r_['kind'] == 'emptydir'}
            hosts = [h for h in hosts if h not in taken and h not in ('share/common',)]
            if hosts:
                spec['rules'].append({'kind': 'emptydir', 'sub': False, 'id': 400, 'path': rx.choice(sorted(set(hosts))),
                                      'mode': rx.choice(['rwx------', 'rwxrwx---', 'rwxr-x--x']), 'tag': None, 'host': True})
        if rx.random() < 0.3:
            for k in range(rx.randint(1, 2)):
                i = 300 + k
                spec['rules'].append({'kind': 'conf', 'sub': False, 'id': i, 'name': f'cf{i}' + rx.choice(['.cfg', ' gen.txt', '.sh']),
                                      'how': rx.choice(['copy', 'configuration']),
                                      'dir': rx.choice([f'share/xconf{i}', '/etc/xconf d', 'share/common', 'libexec/gen']),
                                      'mode': rx.choice([None, None, 'rw-r-----', 'rwxr-xr-x', 'r--r--r--']),
                                      'tag': rx.choice(tagset)})
        # ---- history
        steps: T.List[T.Dict[str, T.Any]] = []
        ambient = rng.choice([0o022, 0o022, 0o077, 0o002])
        destmode = rng.choice(['arg-abs', 'arg-abs', 'env-abs', 'arg-rel', 'env-rel'])
        prepop = rng.random() < 0.3
        n = rng.choice([1, 2, 2, 3, 4, 5])
        for k in range(n):
            op = rng.choice(['install', 'install', 'install', 'only-changed', 'dry-run', 'uninstall', 'uninstall', 'tags', 'skip-sub', 'skew', 'userfile', 'blocked'])
            st: T.Dict[str, T.Any] = {'op': 'install'}
            if op == 'blocked':
                # fault: something of the user's (a directory) sits where a file is to go, the install aborts half-way
                st['block'] = rng.randrange(1000)
            elif op == 'only-changed':
                st['only_changed'] = True
            elif op == 'dry-run':
                st['dry_run'] = True
            elif op == 'uninstall':
                st = {'op': 'uninstall'}
            elif op == 'tags':
                st['tags'] = rng.choice(['t1', 't2', 't1,t2', 'devel', 'man,runtime', 'nosuchtag'])
            elif op == 'skip-sub':
                st['skip_subprojects'] = rng.choice(['*', IR.SUB, 'other'])
            elif op == 'skew':
                st = {'op': 'skew', 'delta': rng.choice([-100, -1, -0.3, 0, 0.3, 0.3, 1, 100]), 'which': rng.choice(['all', 'half'])}
            elif op == 'userfile':
                st = {'op': 'userfile', 'pick': rng.randrange(1000)}
            if st['op'] == 'install':
                st['quiet'] = rng.random() < 0.2
            steps.append(st)
            if st.get('block') is not None and rng.random() < 0.8:
                steps.append({'op': 'uninstall'})
            if st['op'] == 'skew' and rng.random() < 0.7:
                steps.append({'op': 'install', 'only_changed': True})
        if any(r_['kind'] == 'target' for r_ in spec['rules']) and rng.random() < 0.6:
            # the predefined tags of build targets (runtime / devel, alias links) only show under --tags
            st = {'op': 'install', 'tags': rng.choice(['runtime', 'devel', 'runtime,t1', 'devel,man']), 'quiet': False}
            steps.insert(0 if rng.random() < 0.5 else len(steps), st)
        # (extra stream) selection options combined in one command: --tags with --skip-subprojects, either with --only-changed
        for st in steps:
            if st.get('op') != 'install' or st.get('block') is not None or st.get('dry_run'):
                continue
            if st.get('tags') and 'skip_subprojects' not in st and rx.random() < 0.5:
                st['skip_subprojects'] = rx.choice(['*', IR.SUB, IR.SUB, 'other'])
            elif st.get('skip_subprojects') and 'tags' not in st and rx.random() < 0.5:
                st['tags'] = rx.choice(['t1', 't2', 't1,t2', 'devel', 'runtime,devel'])
            if (st.get('tags') or st.get('skip_subprojects')) and not st.get('only_changed') and rx.random() < 0.15:
                st['only_changed'] = True
        return {'kind': 'c11', 'spec': spec, 'have_sub': have_sub, 'steps': steps, 'ambient_umask': ambient, 'destmode': destmode, 'prepopulate': prepop}

    # ------------------------------------------------------------------ project on disk
    def write_project(self, spec: T.Dict[str, T.Any], have_sub: bool, sd: str) -> None:
        os.makedirs(sd)
        compiled = any(r_['kind'] == 'target' for r_ in spec['rules'])
        lang = ", 'c'" if compiled else ''
        libdir = ", 'libdir=lib', 'bindir=bin'" if compiled else ''
        top = [f"project({q(IR.PROJ)}{lang}, default_options: ['prefix={spec['prefix']}', 'install_umask={spec['umask']}'{libdir}], meson_version: '>=1.1.0')\n"]
        sub = [f"project({q(IR.SUB)})\n"]
        subroot = os.path.join(sd, 'subprojects', IR.SUB)
        if have_sub:
            os.makedirs(subroot)
            top.append(f"subproject({q(IR.SUB)})\n")

        def mkfile(root: str, rel: str, content: bytes, execbit: bool) -> None:
            p = os.path.join(root, rel)
            os.makedirs(os.path.dirname(p), exist_ok=True)
            with open(p, 'wb') as f:
                f.write(content)
            os.chmod(p, 0o755 if execbit else 0o644)
        for rule in spec['rules']:
            root = subroot if rule.get('sub') else sd
            out = sub if rule.get('sub') else top
            k = rule['kind']
            kw: T.List[str] = []
            if rule.get('tag'):
                kw.append(f"install_tag: {q(rule['tag'])}")
            if k == 'data':
                for f in rule['files']:
                    if f.get('link_to') is not None:
                        os.makedirs(os.path.dirname(os.path.join(root, f['name'])), exist_ok=True)
                        os.symlink(f['link_to'], os.path.join(root, f['name']))
                        continue
                    mkfile(root, f['name'], IR.content_of(f['name']), f.get('exec', False))
                if rule.get('follow') is not None:
                    kw.append(f"follow_symlinks: {'true' if rule['follow'] else 'false'}")
                if rule.get('dir') is not None:
                    kw.append(f"install_dir: {q(rule['dir'])}")
                if rule.get('rename'):
                    kw.append(f"rename: {lst(rule['rename'])}")
                if rule.get('mode'):
                    kw.append(f"install_mode: {q(rule['mode'])}")
                if rule.get('preserve_path'):
                    kw.append('preserve_path: true')
                out.append(f"install_data({lst([f['name'] for f in rule['files']])}{''.join(', ' + x for x in kw)})\n")
            elif k == 'headers':
                for f in rule['files']:
                    mkfile(root, f['name'], IR.content_of(f['name']), False)
                hk = [f"subdir: {q(rule['subdir'])}"] if rule.get('subdir') else []
                if rule.get('preserve_path'):
                    hk.append('preserve_path: true')
                out.append(f"install_headers({lst([f['name'] for f in rule['files']])}{''.join(', ' + x for x in hk)})\n")
            elif k == 'man':
                for f in rule['files']:
                    mkfile(root, f['name'], IR.content_of(f['name']), False)
                mk = f", locale: {q(rule['locale'])}" if rule.get('locale') else ''
                out.append(f"install_man({lst([f['name'] for f in rule['files']])}{mk})\n")
            elif k == 'subdir':
                base = os.path.join(root, rule['name'])
                os.makedirs(base, exist_ok=True)
                for d in rule.get('dirs', []):
                    os.makedirs(os.path.join(base, d), exist_ok=True)
                    os.chmod(os.path.join(base, d), 0o755)
                os.chmod(base, 0o755)
                for f in rule['entries']:
                    mkfile(base, f['name'], IR.content_of(rule['name'] + '/' + f['name']), f.get('exec', False))
                kw.append(f"install_dir: {q(rule['dir'])}")
                if rule.get('strip'):
                    kw.append('strip_directory: true')
                if rule.get('exclude_files'):
                    kw.append(f"exclude_files: {lst(rule['exclude_files'])}")
                if rule.get('exclude_dirs'):
                    kw.append(f"exclude_directories: {lst(rule['exclude_dirs'])}")
                if rule.get('mode'):
                    kw.append(f"install_mode: {q(rule['mode'])}")
                out.append(f"install_subdir({q(rule['name'])}{''.join(', ' + x for x in kw)})\n")
            elif k == 'target':
                n = rule['name']
                var = 'tg_' + re.sub(r'[^a-z0-9]', '_', n)
                cname = var + '.c'
                kw.append('install: true')
                if rule.get('dir') is not None:
                    kw.append(f"install_dir: {q(rule['dir'])}")
                if rule.get('mode'):
                    kw.append(f"install_mode: {q(rule['mode'])}")
                if rule['ttype'] == 'exe':
                    decl = ''.join(f'int tg_{l}_f(void);\n' for l in rule.get('links', []))
                    call = ' + '.join([f'tg_{l}_f()' for l in rule.get('links', [])] or ['0'])
                    mkfile(root, cname, (decl + f'int main(void) {{ return ({call}) > 100; }}\n').encode(), False)
                    if rule.get('links'):
                        kw.append('link_with: [' + ', '.join('tg_' + l for l in rule['links']) + ']')
                    if rule.get('rpath'):
                        kw.append(f"install_rpath: {q(rule['rpath'])}")
                    out.append(f"{var} = executable({q(n)}, {q(cname)}{''.join(', ' + x for x in kw)})\n")
                else:
                    mkfile(root, cname, f'int tg_{n}_f(void) {{ return {rule["id"]}; }}\n'.encode(), False)
                    if rule.get('version'):
                        kw.append(f"version: {q(rule['version'])}")
                    if rule.get('soversion'):
                        kw.append(f"soversion: {q(rule['soversion'])}")
                    fn = 'shared_library' if rule['ttype'] == 'shlib' else 'static_library'
                    out.append(f"{var} = {fn}({q(n)}, {q(cname)}{''.join(', ' + x for x in kw)})\n")
            elif k == 'ctarget' and rule.get('outs'):
                outs = [{'name': rule['name'], 'dir': rule['dir'], 'tag': rule.get('tag')}] + rule['outs']
                kw = []
                if rule.get('dir_listed', True):
                    kw.append('install_dir: [' + ', '.join(q(o['dir']) if o['dir'] else 'false' for o in outs) + ']')
                    if any(o['tag'] for o in outs):
                        kw.append('install_tag: [' + ', '.join(q(o['tag']) if o['tag'] else 'false' for o in outs) + ']')
                else:
                    kw.append(f"install_dir: {q(rule['dir'])}")
                    if rule.get('tag'):
                        kw.append(f"install_tag: {q(rule['tag'])}")
                if rule.get('mode'):
                    kw.append(f"install_mode: {q(rule['mode'])}")
                out.append(f"custom_target({q('ct%d' % rule['id'])}, output: {lst([o['name'] for o in outs])}, command: ['true'], install: true{''.join(', ' + x for x in kw)})\n")
            elif k == 'ctarget':
                kw.append(f"install_dir: {q(rule['dir'])}")
                if rule.get('mode'):
                    kw.append(f"install_mode: {q(rule['mode'])}")
                out.append(f"custom_target({q('ct%d' % rule['id'])}, output: {q(rule['name'])}, command: ['true'], install: true{''.join(', ' + x for x in kw)})\n")
            elif k == 'conf':
                kw.append(f"install_dir: {q(rule['dir'])}")
                if rule.get('mode'):
                    kw.append(f"install_mode: {q(rule['mode'])}")
                inp = f"cf{rule['id']}.in"
                mkfile(root, inp, IR.conf_input(rule), False)
                how = 'copy: true' if rule['how'] == 'copy' else "configuration: {'WHO': 'meson'}"
                out.append(f"configure_file(input: {q(inp)}, output: {q(rule['name'])}, {how}, install: true{''.join(', ' + x for x in kw)})\n")
            elif k == 'emptydir':
                if rule.get('mode'):
                    kw.append(f"install_mode: {q(rule['mode'])}")
                out.append(f"install_emptydir({q(rule['path'])}{''.join(', ' + x for x in kw)})\n")
            elif k == 'symlink':
                kw.append(f"install_dir: {q(rule['dir'])}")
                kw.append(f"pointing_to: {q(rule['target'])}")
                out.append(f"install_symlink({q(rule['name'])}{''.join(', ' + x for x in kw)})\n")
        with open(os.path.join(sd, 'meson.build'), 'w') as f:
            f.write(''.join(top))
        if have_sub:
            with open(os.path.join(subroot, 'meson.build'), 'w') as f:
                f.write(''.join(sub))

    # ------------------------------------------------------------------ execution
    def run(self, sc: T.Dict[str, T.Any]) -> T.Dict[str, T.Any]:
        root = E.mkscratch('c11')
        try:
            return self._run(sc, os.path.realpath(root))
        except ChildTimeout as e:
            return R.violation('hang-wall', f'meson exceeded the wall limit: {e}'[:1500], 'hang-wall')
        except ChildCrashed as e:
            return R.harness_error(f'child crashed: {e}')
        finally:
            E.rmscratch(root)

    def step_child(self, root: str, bd: str, argv: T.List[str], env: T.Dict[str, str], umask: int, tag: str) -> T.Dict[str, T.Any]:
        def body() -> T.Dict[str, T.Any]:
            events = monitor.install()
            from mesonbuild import mesonmain
            try:
                rc = mesonmain.run(argv, E.meson_py())
            except SystemExit as e:
                rc = e.code if isinstance(e.code, int) else (0 if e.code is None else 1)
            return {'rc': rc, 'events': list(events)}
        return forkrun(body, capture=os.path.join(root, f'step-{tag}.log'), timeout=200, env=env, cwd=bd, umask=umask)

    def _run(self, sc: T.Dict[str, T.Any], root: str) -> T.Dict[str, T.Any]:
        victim = os.path.join(root, 'victim')
        os.makedirs(victim)
        with open(os.path.join(victim, 'victim.cfg'), 'w') as f:
            f.write('of the user, outside DESTDIR\n')
        os.chmod(os.path.join(victim, 'victim.cfg'), 0o644)
        spec = json.loads(json.dumps(sc['spec']).replace('@VICTIM@', victim))
        sd = os.path.join(root, 'src')
        bd = os.path.join(root, 'bd')
        self.write_project(spec, sc.get('have_sub', False), sd)
        ctargets = [r_ for r_ in spec['rules'] if r_['kind'] == 'ctarget']
        targets = [r_ for r_ in spec['rules'] if r_['kind'] == 'target']
        if ctargets or targets:
            # installed build outputs need a backend that has targets: ninja (stub binary for detection only);
            # the outputs are put into the build directory by hand, nothing is built
            from .c05 import STUB_NINJA_DIR
            env0 = M.clean_env()
            env0['PATH'] = STUB_NINJA_DIR + os.pathsep + env0['PATH']
            r = M.meson(['setup', '--backend=ninja', bd, sd], capture=os.path.join(root, 'setup.log'), timeout=120, env=env0)
        else:
            r = M.meson(['setup', '--backend=none', bd, sd], capture=os.path.join(root, 'setup.log'), timeout=120)
        if not r['ok'] or r['value'] != 0:
            return R.harness_error('setup of generated project failed: ' + (r.get('exc') or r['out'])[-2500:])
        self.ctarget_paths: T.List[str] = []
        for r_ in ctargets:
            pth = os.path.join(bd, 'subprojects', IR.SUB, r_['name']) if r_.get('sub') else os.path.join(bd, r_['name'])
            self.ctarget_paths.append(pth)
            os.makedirs(os.path.dirname(pth), exist_ok=True)
            with open(pth, 'wb') as f:
                f.write(IR.content_of('ctarget:' + r_['name']))
            os.chmod(pth, 0o755 if r_.get('exec') else 0o644)
            for o in r_.get('outs', []):
                po = os.path.join(bd, o['name'])
                self.ctarget_paths.append(po)
                with open(po, 'wb') as f:
                    f.write(IR.content_of('ctarget:' + o['name']))
                os.chmod(po, 0o644)
        for r_ in spec['rules']:
            if r_['kind'] == 'conf':
                self.ctarget_paths.append(os.path.join(bd, r_['name']))     # written by the configuration itself
        self.target_files: T.Dict[str, T.Tuple[str, T.Optional[str]]] = {}     # file name -> (path in the build dir, expected RUNPATH)
        if targets:
            # the compiled targets are built for real, by the reference executor of C05 (ninja itself is a stub)
            import random as _random
            from sim.ninja import executor as X
            from sim.ninja.manifest import Manifest
            from .c05 import build_env
            with open(os.path.join(bd, 'build.ninja'), encoding='utf-8') as f:
                mf = Manifest.parse(f.read())
            outs = [IR.target_files(r_)[0] for r_ in targets]
            res = X.Executor(mf, bd, build_env()).schedule(mf.wanted_edges(outs), 'declaration', _random.Random(0))
            if not res.ok:
                return R.harness_error('building the compiled targets of a generated project failed: ' + res.detail[-2000:])
            for r_ in targets:
                fn = IR.target_files(r_)[0]
                self.target_files[fn] = (os.path.join(bd, fn), r_.get('rpath') if r_['ttype'] == 'exe' else None)
        ambient = sc.get('ambient_umask', 0o022)
        destmode = sc.get('destmode', 'arg-abs')
        if destmode.endswith('rel'):
            dest_arg = 'stage dir'
            destdir = os.path.join(bd, dest_arg)      # relative DESTDIRs are taken relative to the build dir
        else:
            dest_arg = destdir = os.path.join(root, 'DEST')
        os.makedirs(destdir)
        os.chmod(destdir, 0o755)
        pre: T.Dict[str, T.Tuple[T.Any, ...]] = {}
        if sc.get('prepopulate'):
            # unrelated user files, including a directory the install will also need
            userdirs = [os.path.join(destdir, 'home/user'), IR.dest_join(destdir, spec['prefix'] + '/share')]
            for d in userdirs:
                os.makedirs(d, exist_ok=True)
            with open(os.path.join(destdir, 'home/user/notes.txt'), 'w') as f:
                f.write('mine\n')
            with open(os.path.join(userdirs[1], 'users own file'), 'w') as f:
                f.write('keep me\n')
            pre = self.snap(destdir)
        outside_before = IR.snapshot(sd)
        victim_before = IR.snapshot(victim)
        faults: T.Dict[str, int] = {}
        probes: T.Dict[str, int] = {}

        def add(d: T.Dict[str, int], k: str, n: int = 1) -> None:
            d[k] = d.get(k, 0) + n
        if pre:
            add(faults, 'destdir-prepopulated')
        if ambient != 0o022:
            add(faults, 'ambient-umask-' + oct(ambient))
        kinds: T.List[str] = []
        trace: T.List[T.Any] = []
        logf = os.path.join(bd, 'meson-logs', 'install-log.txt')
        installed_model: T.Dict[str, T.Tuple[T.Any, ...]] = {}     # what the model says is installed now (besides `pre`)
        clean_full_install = False
        last_created_logged: T.Optional[T.Set[str]] = None
        nontrivial = len(sc['steps']) >= 2 or bool(pre)
        for si, st in enumerate(sc['steps']):
            if st['op'] == 'skew':
                # clock jump: move the mtimes of (some) sources relative to now
                srcs = sorted(p for p, it in IR.snapshot(sd).items() if it[0] == 'file' and not p.endswith('meson.build'))
                srcs += sorted(tf[0] for tf in self.target_files.values()) + sorted(self.ctarget_paths)   # build outputs are sources of the install too
                rest: T.List[str] = []
                if st['which'] == 'half':
                    rest = srcs[1::2]
                    srcs = srcs[::2]
                import time as _t
                now_ns = int(_t.time()) * 10 ** 9 + 500_000_000          # mid-second: sub-second deltas stay within the second
                d_ns = int(round(st['delta'] * 10 ** 9))
                for p in srcs:
                    os.utime(p, ns=(now_ns + d_ns, now_ns + d_ns))
                for p in rest:
                    # the sources that are not skewed are plainly old (their real creation time would relate to the
                    # anchor by whatever the wall clock happened to be)
                    os.utime(p, ns=(now_ns - 10 * 10 ** 9, now_ns - 10 * 10 ** 9))
                for p, it in self.snap(destdir).items():
                    if it[0] == 'file':
                        os.utime(p, ns=(now_ns, now_ns))
                kinds.append(f"skew{st['delta']}")
                add(faults, 'mtime-skew')
                continue
            if st['op'] == 'userfile':
                # the user drops a file of their own into a directory the install created
                dirs = sorted(p for p, it in self.snap(destdir).items() if it[0] == 'dir' and p not in pre)
                if dirs:
                    d = dirs[st['pick'] % len(dirs)]
                    up = os.path.join(d, 'users later file')
                    with open(up, 'w') as f:
                        f.write('mine too\n')
                    snap = self.snap(destdir)
                    pre[up] = snap[up]
                    q_ = d
                    while q_ != destdir and q_ not in pre:
                        pre[q_] = snap[q_]
                        q_ = os.path.dirname(q_)
                    add(faults, 'user-file-added-after-install')
                    nontrivial = True
                kinds.append('userfile')
                continue
            before = self.snap(destdir)
            before_mtimes = {p: os.lstat(p).st_mtime_ns for p, it in before.items() if it[0] == 'file'}
            env = M.clean_env()
            if st['op'] == 'uninstall':
                argv = ['--internal', 'uninstall']
                opts: T.Dict[str, T.Any] = {}
            else:
                argv = ['install', '--no-rebuild']
                if destmode.startswith('arg'):
                    argv += ['--destdir', dest_arg]
                else:
                    env['DESTDIR'] = dest_arg
                opts = {}
                if st.get('tags'):
                    argv += ['--tags', st['tags']]
                    opts['tags'] = st['tags'].split(',')
                if st.get('skip_subprojects'):
                    argv += ['--skip-subprojects', st['skip_subprojects']]
                    opts['skip_subprojects'] = st['skip_subprojects']
                if st.get('only_changed'):
                    argv.append('--only-changed')
                if st.get('dry_run'):
                    argv.append('--dry-run')
                if st.get('quiet'):
                    argv.append('--quiet')
            blocker: T.Optional[str] = None
            blocker_made: T.List[str] = []
            if st['op'] == 'install' and st.get('block') is not None:
                cands = sorted(p for p, it in IR.expected_tree(spec, destdir, {}, ambient).items.items() if it[0] == 'file' and not os.path.lexists(p))
                cands = [p for p in cands if not any(os.path.lexists(a) and not os.path.isdir(a) for a in self.ancestors(p, destdir))]
                if cands:
                    blocker = cands[st['block'] % len(cands)]
                    q_ = blocker
                    while q_ != destdir and not os.path.lexists(q_):
                        blocker_made.append(q_)
                        q_ = os.path.dirname(q_)
                    os.makedirs(blocker)
                    for q_ in blocker_made:
                        os.chmod(q_, 0o755)
                    snap = self.snap(destdir)
                    for q_ in blocker_made:
                        pre[q_] = snap[q_]
                    before = snap
                    add(faults, 'destination-blocked-install-aborts')
            kinds.append(st['op'] + ''.join(f'+{k}' for k in ('tags', 'skip_subprojects', 'only_changed', 'dry_run') if st.get(k)) + ('+blocked' if blocker else ''))
            if st['op'] == 'uninstall' and not os.path.exists(logf):
                continue
            log_before = open(logf).read() if os.path.exists(logf) else None
            rr = self.step_child(root, bd, argv, env, ambient, str(si))
            trace.append({'step': si, 'argv': argv})
            base = dict(faults=faults, probes=probes, trace=trace)
            if not rr['ok']:
                if rr['exc_in_sut']:
                    return R.violation('sut-exception', f'step {si} {argv} raised: {rr["exc"][-2000:]}', 'sut-exception:' + str(rr['exc_type']), **base)
                return R.harness_error('step failed in harness: ' + str(rr['exc'])[-2500:])
            v = rr['value']
            out = rr['out']
            if 'Traceback (most recent call last)' in out:
                return R.violation('sut-exception', f'step {si} {argv}: traceback printed: {out[-2000:]}', 'sut-exception:printed', **base)
            if v['rc'] != 0 and blocker is None:
                return R.violation('install-failed', f'step {si} `meson {" ".join(argv)}` exited {v["rc"]}: {out[-1200:]}', f'install-failed:{kinds[-1]}', **base)
            # ---- (a) containment, on every recorded mutation
            for ev in v['events']:
                if ev['op'] in ('spawn',):
                    continue
                for key in ('path', 'path2'):
                    p = ev.get(key)
                    if p is None or (key == 'path2' and ev['op'] == 'link'):
                        continue
                    if ev['op'].startswith('shutil.') and key == 'src':
                        continue
                    inside = p == destdir or p.startswith(destdir + os.sep)
                    is_log = p.startswith(os.path.join(bd, 'meson-logs') + os.sep) or p == os.path.join(bd, 'meson-logs')
                    if not inside and not is_log:
                        return R.violation('escaped-destdir', f'step {si} `meson {" ".join(argv[:3])}`: {ev["op"]} on {p} which is outside DESTDIR {destdir}',
                                           f'escaped-destdir:{ev["op"]}', **base)
                    if st.get('dry_run') and not is_log:
                        return R.violation('dry-run-wrote', f'step {si}: --dry-run performed {ev["op"]} on {p}', f'dry-run-wrote:{ev["op"]}', **base)
            if IR.snapshot(victim) != victim_before:
                return R.violation('escaped-destdir', f'step {si}: a file outside DESTDIR that an installed link points to was changed by `meson {" ".join(argv[:2])}`: '
                                   f'{victim_before} -> {IR.snapshot(victim)}', 'escaped-destdir:link-target-outside', **base)
            if IR.snapshot(sd) != outside_before:
                return R.violation('escaped-destdir', f'step {si}: the source tree was modified by `meson {" ".join(argv[:2])}`', 'escaped-destdir:source-tree', **base)
            after = self.snap(destdir)
            if blocker is not None and v['rc'] != 0:
                # the install stopped at the blocked destination: whatever it did create is on record, nothing of the user's changed
                nontrivial = True
                log_now = open(logf).read() if os.path.exists(logf) else ''
                logged_now = {l.rstrip('\n') for l in log_now.splitlines() if l.strip() and not l.startswith('#')}
                unlogged = sorted(p for p in after if p not in before and p not in logged_now)
                if unlogged:
                    return R.violation('created-not-logged', f'step {si}: the install aborted at the blocked destination {os.path.relpath(blocker, destdir)}; it had created paths '
                                       f'the install log does not name: {[os.path.relpath(p, destdir) for p in unlogged[:8]]}',
                                       f'created-not-logged:aborted:{after[unlogged[0]][0]}', **base)
                for p, it in before.items():
                    if p in pre and it[0] != 'dir' and after.get(p) != it:
                        return R.violation('install-damaged-preexisting', f'step {si}: pre-existing {p} changed by the aborted install', 'install-damaged-preexisting', **base)
                # the user clears the obstacle away again (directories of theirs that the install has filled stay theirs)
                for q_ in blocker_made:
                    if not os.listdir(q_):
                        os.rmdir(q_)
                        pre.pop(q_, None)
                    else:
                        pre[q_] = IR.snapshot(os.path.dirname(q_))[q_]
                fresh_ = not any(p not in pre for p in before)
                clean_full_install = fresh_
                last_created_logged = logged_now
                add(probes, 'install-aborted-at-blocked-destination')
                continue
            if st.get('dry_run'):
                if after != before:
                    return R.violation('dry-run-wrote', f'step {si}: DESTDIR changed under --dry-run', 'dry-run-wrote:tree', **base)
                add(probes, 'dry-run')
                # the dry run rewrote the log as a re-install would: directories it did not (pretend to)
                # create are no longer on record, so nothing is demanded about them at uninstall
                clean_full_install = False
                continue
            if st['op'] == 'uninstall':
                logged = [l.rstrip('\n') for l in (log_before or '').splitlines() if l.strip() and not l.startswith('#')]
                removed = set(before) - set(after)
                kept_logged = [p for p in logged if os.path.lexists(p) and not (os.path.isdir(p) and not os.path.islink(p) and os.listdir(p))]
                not_logged_removed = sorted(p for p in removed if p not in set(logged))
                if not_logged_removed:
                    return R.violation('uninstall-removed-unlogged', f'step {si}: uninstall removed paths the install log does not name: {not_logged_removed[:6]}',
                                       'uninstall-removed-unlogged', **base)
                if kept_logged:
                    return R.violation('uninstall-left-logged', f'step {si}: uninstall left logged paths behind: {kept_logged[:6]}', 'uninstall-left-logged', **base)
                for p in pre:
                    it = before.get(p)           # as the uninstall found it (an install may have given a user's directory the mode an install_emptydir() declares)
                    if after.get(p) != it:
                        return R.violation('uninstall-damaged-preexisting', f'step {si}: pre-existing {p} changed by uninstall: {it} -> {after.get(p)}',
                                           'uninstall-damaged-preexisting', **base)
                if clean_full_install and last_created_logged is not None:
                    leftover = sorted(p for p in after if p not in pre)
                    if leftover:
                        return R.violation('uninstall-incomplete', f'step {si}: after install into an empty DESTDIR and uninstall these remain: {leftover[:8]}',
                                           'uninstall-incomplete', **base)
                installed_model = {}
                clean_full_install = False
                add(probes, 'uninstall')
                continue
            # ---- an effective install step
            exp = IR.expected_tree(spec, destdir, opts, ambient).items
            # (b) exactness
            fresh = not any(p not in pre for p in before)
            explicit = self.explicit_dirs(spec, destdir)
            # (only the install_emptydir() rules this step selects: a directory another selected rule installs into keeps its mode)
            explicit = {p for p in explicit if any(self.explicit_dirs({'prefix': spec['prefix'], 'rules': [r_]}, destdir) == {p} and
                                                   IR.expected_tree({'prefix': spec['prefix'], 'umask': spec['umask'], 'rules': [r_]}, destdir, opts, ambient).items
                                                   for r_ in spec['rules'] if r_['kind'] == 'emptydir' and r_.get('mode'))}
            want: T.Dict[str, T.Tuple[T.Any, ...]] = dict(before)      # whatever is there stays (pre-existing files, earlier installs)
            for p, it in exp.items():
                if it[0] == 'dir' and p in before and before[p][0] == 'dir' and p not in explicit:
                    continue                                           # an existing directory keeps its mode
                want[p] = it
            oc = bool(st.get('only_changed'))
            diffs = {}
            for p in sorted(set(want) | set(after)):
                a, w = after.get(p), want.get(p)
                if a == w:
                    continue
                diffs[p] = {'found': a, 'specified': w}
            if diffs:
                p0 = sorted(diffs)[0]
                d0 = diffs[p0]
                if d0['found'] is None:
                    cls = 'missing'
                elif d0['specified'] is None:
                    cls = 'unexpected'
                elif d0['found'][0] != d0['specified'][0]:
                    cls = 'wrong-kind'
                elif d0['found'][0] == 'file' and d0['found'][2] != d0['specified'][2]:
                    cls = 'wrong-content'
                elif d0['found'][0] == 'link':
                    cls = 'wrong-target'
                else:
                    cls = 'wrong-mode'
                kindof = (d0['specified'] or d0['found'])[0]
                rel = {os.path.relpath(k, destdir): val for k, val in list(diffs.items())[:6]}
                return R.violation('inexact-install', f'step {si} `meson {" ".join(argv[:2] + argv[4 if destmode.startswith("arg") else 2:])}` (umask {spec["umask"]}, ambient {oct(ambient)}, '
                                   f'prefix {spec["prefix"]}): DESTDIR differs from what the install rules specify: {json.dumps(rel, ensure_ascii=False)[:900]}',
                                   f'inexact-install:{cls}:{kindof}', **base)
            # (f) --only-changed: a destination at least as new as its source was left untouched
            if oc:
                for p, ns in before_mtimes.items():
                    if p in pre or p not in exp:
                        continue                   # (not selected by --tags / --skip-subprojects in this step: nothing is decided about it)
                    src = self.source_of(spec, sc.get('have_sub', False), destdir, sd, p)
                    if src is None or not os.path.exists(src) or p not in after:
                        continue
                    # both time stamps were set by the simulator (skew) or copied from one another by the install: compared exactly
                    src_ns = os.stat(src).st_mtime_ns
                    touched = os.lstat(p).st_mtime_ns != ns
                    if src_ns <= ns and touched:
                        return R.violation('only-changed-rewrote', f'step {si}: --only-changed rewrote {os.path.relpath(p, destdir)} although its source is not newer '
                                           f'({(src_ns - ns) / 1e9:+.3f}s)', 'only-changed-rewrote', **base)
                    if src_ns > ns and not touched:
                        return R.violation('only-changed-skipped', f'step {si}: --only-changed kept {os.path.relpath(p, destdir)} although its source is newer '
                                           f'({(src_ns - ns) / 1e9:+.3f}s)', 'only-changed-skipped', **base)
                    if src_ns != ns and os.path.basename(p) not in self.target_files:
                        add(probes, 'only-changed-decided-by-mtime')
                        nontrivial = True
            # (e) the log names what was created
            log_now = open(logf).read() if os.path.exists(logf) else ''
            logged_now = {l.rstrip('\n') for l in log_now.splitlines() if l.strip() and not l.startswith('#')}
            created = {p for p in after if p not in before}
            if fresh:
                unlogged = sorted(p for p in created if p not in logged_now)
                if unlogged:
                    return R.violation('created-not-logged', f'step {si}: install into an empty DESTDIR created paths the install log does not name: '
                                       f'{[os.path.relpath(p, destdir) for p in unlogged[:8]]}', f'created-not-logged:{after[unlogged[0]][0]}', **base)
                phantom = sorted(p for p in logged_now if not os.path.lexists(p))
                if phantom:
                    return R.violation('logged-not-created', f'step {si}: the install log names paths that do not exist: {phantom[:6]}', 'logged-not-created', **base)
            # every install (fresh or not) re-creates the files and symlinks its rules specify, so the log must
            # name them; files kept by --only-changed appear as '# Preserving' comments instead
            for p_, it in exp.items():
                if it[0] == 'dir' or p_ not in after:
                    continue
                if it[0] == 'file' and oc:
                    continue
                if it[0] == 'link' and oc and p_ in self.copied_links(spec, destdir):
                    continue           # a link copied from the sources is preserved by --only-changed like a file
                if p_ not in logged_now:
                    return R.violation('installed-not-logged', f'step {si}: {os.path.relpath(p_, destdir)} ({it[0]}) is specified by the install rules and present, '
                                       f'but the install log written by this step does not name it (uninstall would leave it behind)',
                                       f'installed-not-logged:{it[0]}', **base)
            if 'does not work on this platform' in out:
                return R.violation('symlink-skipped', f'step {si}: the installer claims symlinks do not work on this platform: {out[-300:]}', 'symlink-skipped', **base)
            # (d) idempotence is implied by exactness of every step against the same specification
            installed_model = {p: it for p, it in after.items() if p not in pre}
            clean_full_install = fresh and not opts
            last_created_logged = logged_now
            add(probes, 'install-fresh' if fresh else 'install-over-existing')
        return R.ok(faults=faults, probes=probes, nontrivial=nontrivial,
                    distinct_key=prng.short([kinds, sorted({r['kind'] for r in spec['rules']}), sc.get('destmode'), spec['umask']]),
                    interleavings=[prng.short(kinds)], summary={'ops': kinds, 'rules': [r['kind'] for r in spec['rules']]},
                    steps=len(sc['steps']), trace_digest=prng.digest(json.loads(json.dumps([kinds, trace], default=str).replace(root, '<ROOT>'))))

    def snap(self, destdir: str) -> T.Dict[str, T.Tuple[T.Any, ...]]:
        """Listing of DESTDIR; an installed compiled target is represented by 'TARGET:<name>' when it is the built file
        (same size, same bytes up to the rewritten run path, RUNPATH as the rules say), else by what is wrong with it."""
        out = IR.snapshot(destdir)
        for p, it in list(out.items()):
            tf = self.target_files.get(os.path.basename(p)) if it[0] == 'file' else None
            if tf is not None:
                out[p] = ('file', it[1], self.judge_target(p, tf[0], tf[1]))
        return out

    @staticmethod
    def judge_target(installed: str, built: str, rpath: T.Optional[str]) -> str:
        name = os.path.basename(built)
        try:
            with open(installed, 'rb') as f:
                a = f.read()
            with open(built, 'rb') as f:
                b = f.read()
        except OSError as e:
            return f'TARGET-BAD:{name}:unreadable {e}'
        if len(a) != len(b):
            return f'TARGET-BAD:{name}:size {len(a)} != {len(b)} of the built file'
        if name.endswith('.a'):
            return 'TARGET:' + name if a == b else f'TARGET-BAD:{name}:archive differs from the built one'
        if a[:4] != b'\x7fELF':
            return f'TARGET-BAD:{name}:not an ELF file'
        ndiff = sum(1 for x, y in zip(a, b) if x != y)
        if ndiff > 96:
            return f'TARGET-BAD:{name}:{ndiff} bytes differ from the built file'
        r = subprocess.run(['readelf', '-d', installed], capture_output=True, text=True)
        got = re.findall(r'\((?:RUNPATH|RPATH)\)\s+Library r(?:un)?path: \[(.*)\]', r.stdout)
        want = [rpath] if rpath else []
        if got != want:
            return f'TARGET-BAD:{name}:run path {got} instead of {want}'
        return 'TARGET:' + name

    @staticmethod
    def copied_links(spec: T.Dict[str, T.Any], destdir: str) -> T.Set[str]:
        out: T.Set[str] = set()
        for r in spec['rules']:
            if r['kind'] == 'data' and any(f.get('link_to') is not None for f in r['files']):
                t = IR.expected_tree({'prefix': spec['prefix'], 'umask': spec['umask'], 'rules': [r]}, destdir, {}, 0o022)
                out |= {p for p, it in t.items.items() if it[0] == 'link'}
        return out

    @staticmethod
    def ancestors(p: str, stop: str) -> T.List[str]:
        out = []
        p = os.path.dirname(p)
        while p != stop and len(p) > len(stop):
            out.append(p)
            p = os.path.dirname(p)
        return out

    @staticmethod
    def explicit_dirs(spec: T.Dict[str, T.Any], destdir: str) -> T.Set[str]:
        """install_emptydir destinations with a declared mode: set_mode is applied on every install."""
        out: T.Set[str] = set()
        fullprefix = IR.dest_join(destdir, spec['prefix'])
        for r in spec['rules']:
            if r['kind'] == 'emptydir' and r.get('mode'):
                pth = r['path']
                out.add(IR.dest_join(destdir, pth) if pth.startswith('/') else os.path.normpath(os.path.join(fullprefix, pth)))
        return out

    @staticmethod
    def source_of(spec: T.Dict[str, T.Any], have_sub: bool, destdir: str, sd: str, dst: str) -> T.Optional[str]:
        for r in spec['rules']:
            root = os.path.join(sd, 'subprojects', IR.SUB) if r.get('sub') else sd
            t = IR.expected_tree({'prefix': spec['prefix'], 'umask': spec['umask'], 'rules': [r]}, destdir, {}, 0o022)
            if dst in t.items and t.items[dst][0] == 'file':
                if r['kind'] in ('ctarget', 'conf'):
                    return os.path.join(os.path.dirname(sd), 'bd', os.path.basename(dst))
                if r['kind'] == 'target':
                    return os.path.join(os.path.dirname(sd), 'bd', IR.target_files(r)[0])
                if r['kind'] == 'subdir':
                    base = os.path.join(IR.dest_join(destdir, r['dir']) if r['dir'].startswith('/') else
                                        os.path.join(IR.dest_join(destdir, spec['prefix']), r['dir']), '' if r.get('strip') else r['name'])
                    return os.path.join(root, r['name'], os.path.relpath(dst, os.path.normpath(base)))
                names = [f['name'] for f in r['files']]
                if r.get('rename'):
                    for f, rn in zip(r['files'], r['rename']):
                        if os.path.basename(dst) == rn:
                            return os.path.join(root, f['name'])
                for nme in names:
                    if os.path.basename(nme) == os.path.basename(dst):
                        return os.path.join(root, nme)
        return None

    # ------------------------------------------------------------------ shrinking
    def shrink(self, sc: T.Dict[str, T.Any]) -> T.Iterator[T.Dict[str, T.Any]]:
        for sub in R.drop_each(sc['steps'], 1):
            c = copy.deepcopy(sc)
            c['steps'] = copy.deepcopy(sub)
            yield c
        for sub in R.drop_each(sc['spec']['rules'], 1):
            c = copy.deepcopy(sc)
            c['spec']['rules'] = copy.deepcopy(sub)
            yield c
        if sc.get('prepopulate'):
            c = copy.deepcopy(sc)
            c['prepopulate'] = False
            yield c
        if sc.get('ambient_umask') != 0o022:
            c = copy.deepcopy(sc)
            c['ambient_umask'] = 0o022
            yield c
        if sc['spec']['umask'] != '022':
            c = copy.deepcopy(sc)
            c['spec']['umask'] = '022'
            yield c
        if sc.get('destmode') != 'arg-abs':
            c = copy.deepcopy(sc)
            c['destmode'] = 'arg-abs'
            yield c
        if sc['spec']['prefix'] != '/usr':
            c = copy.deepcopy(sc)
            c['spec']['prefix'] = '/usr'
            yield c
        for i, r in enumerate(sc['spec']['rules']):
            for key in ('mode', 'tag', 'rename', 'exclude_files', 'exclude_dirs', 'subdir'):
                if r.get(key):
                    c = copy.deepcopy(sc)
                    c['spec']['rules'][i][key] = None
                    yield c
            if r.get('sub'):
                c = copy.deepcopy(sc)
                c['spec']['rules'][i]['sub'] = False
                yield c
            for key in ('files', 'entries'):
                if r.get(key) and len(r[key]) > 1:
                    c = copy.deepcopy(sc)
                    c['spec']['rules'][i][key] = r[key][:1]
                    if r.get('rename'):
                        c['spec']['rules'][i]['rename'] = r['rename'][:1]
                    yield c
        for i, st in enumerate(sc['steps']):
            for key in ('tags', 'skip_subprojects', 'only_changed', 'quiet'):
                if st.get(key):
                    c = copy.deepcopy(sc)
                    c['steps'][i].pop(key)
                    yield c


CHECK = Check()
