"""Generator of C projects whose build steps really read what they declare:
generated headers (custom_target, chains through other targets' outputs,
depends:, depend_files:), configure_file, multi-output custom targets,
generator(), static/shared/both libraries (link_with, link_whole),
declare_dependency(sources:), executables, a custom target that runs a built
executable, subdirs and a subproject.  Used by C05 and C06."""
from __future__ import annotations

import os
import random
import typing as T

GEN_PY = r'''#!/usr/bin/env python3
import sys, re

def read_val(path):
    txt = open(path).read()
    m = re.search(r'(-?\d+)\s*$', txt.strip().splitlines()[-1])
    return int(m.group(1)) if m else 0

mode = sys.argv[1]
if mode == 'define':            # define OUT NAME VAL [INFILES...]  -> #define NAME (VAL + sum of values read)
    out, name, val = sys.argv[2], sys.argv[3], int(sys.argv[4])
    for p in sys.argv[5:]:
        val += read_val(p)
    open(out, 'w').write('#pragma once\n#define %s %d\n' % (name, val))
elif mode == 'pair':            # pair OUT.c OUT.h NAME VAL [INFILES...]
    outc, outh, name, val = sys.argv[2], sys.argv[3], sys.argv[4], int(sys.argv[5])
    for p in sys.argv[6:]:
        val += read_val(p)
    open(outh, 'w').write('#pragma once\n#define %s_VAL %d\nint %s_f(void);\n' % (name.upper(), val, name))
    open(outc, 'w').write('#include "%s"\nint %s_f(void) { return %s_VAL; }\n' % (outh.split('/')[-1], name, name.upper()))
elif mode == 'gensrc':          # gensrc IN OUT  (IN: "name includes...")
    inp, out = sys.argv[2], sys.argv[3]
    words = open(inp).read().split()
    name, incs = words[0], words[1:]
    body = ''.join('#include "%s"\n' % i.split(':')[0] for i in incs)
    expr = ' + '.join([i.split(':')[1] for i in incs] or ['0'])
    open(out, 'w').write(body + 'int %s_f(void) { return %s; }\n' % (name, expr))
elif mode == 'genhdr':          # genhdr IN OUT  (IN: "MACRO VAL")
    inp, out = sys.argv[2], sys.argv[3]
    name, val = open(inp).read().split()[:2]
    open(out, 'w').write('#pragma once\n#define %s %s\n' % (name, val))
elif mode == 'gencpp':          # gencpp OUT NAME -> a C++ source exporting one C function
    open(sys.argv[2], 'w').write('extern "C" int %s(void) { return 1; }\n' % sys.argv[3])
elif mode == 'vscript':         # vscript OUT -> a linker version script exporting everything
    open(sys.argv[2], 'w').write('{ global: *; };\n')
elif mode == 'value':           # value OUT VAL [INFILES...] -> text file with a number
    out, val = sys.argv[2], int(sys.argv[3])
    for p in sys.argv[4:]:
        val += read_val(p)
    open(out, 'w').write('value %d\n' % val)
else:
    sys.exit('bad mode')
'''


def q(s: str) -> str:
    return "'" + s + "'"


class Ent(T.NamedTuple):
    kind: str            # hdr cfg pair gsrc lib dep exe run
    name: str            # meson variable / base name
    seg: int             # which build file segment
    data: T.Dict[str, T.Any]


def gen_project(rng: random.Random, size: str = 'small') -> T.Dict[str, T.Any]:
    """Returns a JSON-able spec; render() turns it into files."""
    big = size != 'small'
    n_hdr = rng.randint(1, 5 if big else 3)
    n_pair = rng.randint(0, 2)
    n_gsrc = rng.randint(0, 2)
    n_lib = rng.randint(1, 4 if big else 3)
    n_exe = rng.randint(1, 3 if big else 2)
    ents: T.List[T.Dict[str, T.Any]] = []
    segs = ['', 'sd1', '', 'sd2', ''] if rng.random() < 0.6 else ['']
    nseg = len(segs)

    def seg_for(i: int, total: int) -> int:
        return min(nseg - 1, i * nseg // max(1, total))
    values: T.List[T.Dict[str, T.Any]] = []      # things that produce a readable value file (hdr / run / value)
    hdrs: T.List[T.Dict[str, T.Any]] = []
    order_total = n_hdr + 1 + n_pair + n_gsrc + n_lib + n_exe + 3
    pos = 0
    if rng.random() < 0.6:
        e = {'kind': 'cfg', 'name': 'cfg0', 'macro': 'CFG0_VAL', 'val': rng.randint(1, 9), 'seg': seg_for(pos, order_total)}
        ents.append(e)
        hdrs.append(e)
        pos += 1
    if rng.random() < 0.4:
        e = {'kind': 'value', 'name': 'val0', 'val': rng.randint(1, 9), 'seg': seg_for(pos, order_total), 'depend_files': rng.random() < 0.5}
        ents.append(e)
        values.append(e)
        pos += 1
    for i in range(n_hdr):
        e = {'kind': 'hdr', 'name': f'h{i}', 'macro': f'H{i}_VAL', 'val': rng.randint(1, 9), 'seg': seg_for(pos, order_total),
             'inputs': [], 'depends': [], 'depend_files': rng.random() < 0.25}
        if values and rng.random() < 0.5:
            src = rng.choice(values)
            # either a declared input:, or read through depends: with the path passed as a plain string argument
            (e['inputs'] if rng.random() < 0.5 else e['depends']).append(src['name'])
        elif values and i >= 1 and rng.random() < 0.5:
            # several consumers of one producer through depends: (each of them needs its own edge)
            prev = [h for h in hdrs if h.get('depends')]
            e['depends'].append(prev[0]['depends'][0] if prev else values[0]['name'])
        ents.append(e)
        hdrs.append(e)
        values.append(e)
        pos += 1
    pairs = []
    for i in range(n_pair):
        e = {'kind': 'pair', 'name': f'm{i}', 'val': rng.randint(1, 9), 'seg': seg_for(pos, order_total), 'inputs': []}
        if values and rng.random() < 0.4:
            e['inputs'].append(rng.choice(values)['name'])
        ents.append(e)
        pairs.append(e)
        pos += 1
    gsrcs = []
    for i in range(n_gsrc):
        use = rng.sample(hdrs, min(len(hdrs), rng.randint(0, 2)))
        e = {'kind': 'gsrc', 'name': f'g{i}', 'uses': [h['name'] for h in use], 'seg': seg_for(pos, order_total)}
        ents.append(e)
        gsrcs.append(e)
        pos += 1
    libs: T.List[T.Dict[str, T.Any]] = []
    deps: T.List[T.Dict[str, T.Any]] = []
    have_subp = rng.random() < 0.35
    for j in range(n_lib):
        use = rng.sample(hdrs, min(len(hdrs), rng.randint(0, 3)))
        kind = rng.choice(['static_library', 'shared_library', 'shared_library', 'both_libraries'] if big else ['static_library', 'static_library', 'shared_library', 'both_libraries'])
        e = {'kind': 'lib', 'name': f'l{j}', 'libkind': kind, 'uses': [h['name'] for h in use], 'seg': seg_for(pos, order_total),
             'hdr_via': rng.choice(['sources', 'dep', 'sources']), 'link_with': [], 'link_whole': [], 'pairs': [], 'gsrcs': [], 'subp': False}
        for prev in libs:
            if rng.random() < 0.4:
                if prev['libkind'] == 'static_library' and rng.random() < 0.3:
                    e['link_whole'].append(prev['name'])
                else:
                    e['link_with'].append(prev['name'])
        if pairs and rng.random() < 0.4:
            # (a pair's .c defines a function: compiled into one library only, or the link sees it twice)
            pn = rng.choice(pairs)['name']
            if not any(pn in l['pairs'] for l in libs):
                e['pairs'].append(pn)
        if gsrcs and rng.random() < 0.4:
            g = rng.choice(gsrcs)
            if not any(g['name'] in o.get('gsrcs', []) for o in libs):
                e['gsrcs'].append(g['name'])
        if have_subp and rng.random() < 0.4:
            e['subp'] = True
        if kind in ('static_library', 'shared_library'):
            # a header of its own made by generator(): lives in the library's private directory
            e['ghdr'] = rng.random() < 0.45
            e['install'] = rng.random() < 0.3
        # objects taken over from an earlier static library instead of linking it
        cands = [p for p in libs if p['libkind'] == 'static_library' and p['name'] not in e['link_with'] and p['name'] not in e['link_whole']
                 and not p.get('extract_from')]
        if cands and rng.random() < 0.25:
            src_lib = rng.choice(cands)
            e['extract_from'] = src_lib['name']
            # the extracted objects still need what their library linked against
            for n_ in src_lib['link_with'] + src_lib['link_whole']:
                if n_ not in e['link_with'] and n_ not in e['link_whole']:
                    e['link_with'].append(n_)
            if src_lib.get('subp'):
                e['subp'] = True
        ents.append(e)
        libs.append(e)
        pos += 1
        if rng.random() < 0.4 and hdrs:
            dh = rng.sample(hdrs, min(len(hdrs), rng.randint(1, 2)))
            d = {'kind': 'dep', 'name': f'd{len(deps)}', 'hdrs': [h['name'] for h in dh if h['kind'] != 'cfg'], 'link_with': [e['name']],
                 'seg': e['seg']}
            ents.append(d)
            deps.append(d)
    used_gsrc = {g for l in libs for g in l['gsrcs']}
    used_pair = {p for l in libs for p in l['pairs']}
    gtool = None
    if rng.random() < 0.35:
        # a code generator that is itself built by the project
        gtool = {'kind': 'gtool', 'name': 'gentool', 'seg': seg_for(pos, order_total)}
        ents.append(gtool)
        pos += 1
    exes = []
    for k in range(n_exe):
        use = rng.sample(hdrs, min(len(hdrs), rng.randint(0, 2)))
        e = {'kind': 'exe', 'name': f'e{k}', 'uses': [h['name'] for h in use], 'seg': seg_for(pos, order_total), 'hdr_via': rng.choice(['sources', 'dep']),
             'link_with': [l['name'] for l in libs if rng.random() < 0.5], 'deps': [d['name'] for d in deps if rng.random() < 0.5],
             'pairs': [], 'pair_hdr_only': [], 'gsrcs': [], 'subp': have_subp and rng.random() < 0.5}
        e['link_with'] = [n for n in e['link_with'] if not any(n in d['link_with'] for d in deps if d['name'] in e['deps'])]
        for p in pairs:
            if p['name'] not in used_pair and rng.random() < 0.6:
                e['pairs'].append(p['name'])
                used_pair.add(p['name'])
            elif rng.random() < 0.3:
                e['pair_hdr_only'].append(p['name'])
        for g in gsrcs:
            if g['name'] not in used_gsrc and rng.random() < 0.7:
                e['gsrcs'].append(g['name'])
                used_gsrc.add(g['name'])
        if gtool is not None and not gtool.get('used') and rng.random() < 0.8:
            e['gtool_src'] = f'bt{k}'
            gtool['used'] = True
        ents.append(e)
        exes.append(e)
        pos += 1
    if exes and rng.random() < 0.5:
        ex = rng.choice(exes)
        r = {'kind': 'run', 'name': 'r0', 'exe': ex['name'], 'seg': max(ex['seg'], seg_for(pos, order_total)), 'capture': rng.random() < 0.5}
        ents.append(r)
        if rng.random() < 0.7:
            h = {'kind': 'hdr', 'name': 'hr', 'macro': 'HR_VAL', 'val': 1, 'seg': r['seg'], 'inputs': ['r0'], 'depends': [], 'depend_files': False}
            ents.append(h)
            e2 = {'kind': 'exe', 'name': 'elast', 'uses': ['hr'], 'seg': r['seg'], 'hdr_via': 'sources', 'link_with': [], 'deps': [], 'pairs': [],
                  'pair_hdr_only': [], 'gsrcs': [], 'subp': False}
            ents.append(e2)
    # targets that also have C++ sources, one of them generated by a custom target (mixed-language unity builds)
    for e in ents:
        if e['kind'] in ('lib', 'exe') and rng.random() < 0.3:
            e['cpp'] = True
    # a linker version script made by a custom target, handed to the link step through link_depends:
    for e in ents:
        if (e['kind'] == 'exe' or (e['kind'] == 'lib' and e['libkind'] == 'shared_library')) and rng.random() < 0.2:
            e['vscript'] = True
    # precompiled headers that pull in generated headers: the PCH step needs them ordered before it as well
    for e in ents:
        if e['kind'] in ('lib', 'exe') and rng.random() < 0.25 and any(h for h in e.get('uses', [])):
            e['pch'] = True
    # consumers that include the generator()-made header of a library they are (transitively) linked with
    for e in ents:
        if e['kind'] not in ('lib', 'exe'):
            continue
        cands = [n for n in link_closure(e, {x['name']: x for x in ents}) if {x['name']: x for x in ents}[n].get('ghdr')]
        if cands and rng.random() < 0.7:
            e['ghdr_of'] = rng.sample(cands, min(len(cands), rng.randint(1, 2)))
    if big and rng.random() < 0.7:
        # spread layout: every library lives in its own subdirectory, consumers at the top level again
        segs = ['', 'sd1', 'sd2', 'sd3', 'sd4', '']
        nlib = 0
        for e in ents:
            if e['kind'] == 'lib':
                nlib += 1
                e['seg'] = min(4, nlib)
            elif e['kind'] == 'dep':
                e['seg'] = min(4, max(1, nlib))
            elif e['kind'] in ('exe', 'run') or e['name'] in ('hr', 'elast'):
                e['seg'] = 5
            else:
                e['seg'] = min(e['seg'], 1) if nlib == 0 else min(4, max(1, nlib))
    # segments must be non-decreasing in definition order
    cur = 0
    for e in ents:
        cur = max(cur, e['seg'])
        e['seg'] = cur
    return {'ents': ents, 'segs': segs, 'subp': have_subp, 'subp_val': rng.randint(1, 9),
            'default_library': rng.choice(['shared', 'static', 'both']), 'unity': rng.choice(['off', 'off', 'on']), 'unity_size': rng.choice([4, 4, 2])}


def link_closure(e: T.Dict[str, T.Any], byname: T.Dict[str, T.Dict[str, T.Any]]) -> T.List[str]:
    """Libraries reachable through link_with / link_whole (also of declare_dependency objects), in discovery order."""
    out: T.List[str] = []
    todo = list(e.get('link_with', [])) + list(e.get('link_whole', []))
    for d in e.get('deps', []):
        if d in byname:
            todo += byname[d].get('link_with', [])
    while todo:
        n = todo.pop(0)
        if n in out or n not in byname:
            continue
        out.append(n)
        todo += list(byname[n].get('link_with', [])) + list(byname[n].get('link_whole', []))
    return out


def ghdr_path(lib: T.Dict[str, T.Any], segs: T.List[str]) -> str:
    d = segs[lib['seg']]
    ext = 'a' if lib['libkind'] == 'static_library' else 'so'
    return (d + '/' if d else '') + f"lib{lib['name']}.{ext}.p/{lib['name']}_pub.h"


def render(spec: T.Dict[str, T.Any], sd: str) -> None:
    os.makedirs(sd, exist_ok=True)
    ents = spec['ents']
    segs = spec['segs']
    byname = {e['name']: e for e in ents}

    def subdir_of(e: T.Dict[str, T.Any]) -> str:
        return segs[e['seg']]

    def hext(e: T.Dict[str, T.Any]) -> str:
        # every fourth generated header is an X-macro style table called *.def (also *.map / *.inc): a file that is
        # #included although its suffix is not a header's
        import zlib
        return ['.def', '.h', '.h', '.h', '.map', '.h', '.inc', '.h'][zlib.crc32(e['name'].encode()) % 8] if e['kind'] == 'hdr' else '.h'

    def outpath(e: T.Dict[str, T.Any], fname: str) -> str:
        d = subdir_of(e)
        return (d + '/' if d else '') + fname

    def value_file(name: str) -> str:
        e = byname[name]
        if e['kind'] in ('hdr', 'cfg'):
            return outpath(e, e['name'] + hext(e))
        if e['kind'] == 'value':
            return outpath(e, e['name'] + '.txt')
        if e['kind'] == 'run':
            return outpath(e, e['name'] + '.txt')
        raise AssertionError(e['kind'])

    def hdr_file(name: str) -> str:
        e = byname[name]
        return outpath(e, e['name'] + hext(e))

    def hdr_macro(name: str) -> str:
        return byname[name]['macro']
    with open(os.path.join(sd, 'gen.py'), 'w') as f:
        f.write(GEN_PY)
    os.chmod(os.path.join(sd, 'gen.py'), 0o755)
    with open(os.path.join(sd, 'data.txt'), 'w') as f:
        f.write('data 5\n')
    files: T.Dict[int, T.List[str]] = {}
    langs = "'c', 'cpp'" if any(e.get('cpp') for e in ents) else "'c'"
    top: T.List[str] = [f"project('c05', {langs}, default_options: ['default_library={spec['default_library']}', 'unity={spec['unity']}', "
                        f"'unity_size={spec.get('unity_size', 4)}', 'warning_level=1'])\n",
                        "py = find_program('python3')\n", "genpy = files('gen.py')\n", "datafile = files('data.txt')\n", "inc = include_directories('.')\n",
                        "gen = generator(py, output: '@BASENAME@.c', arguments: [genpy[0], 'gensrc', '@INPUT@', '@OUTPUT@'])\n"
                        if False else "gen = generator(py, output: '@BASENAME@.c', arguments: ['@SOURCE_ROOT@/gen.py', 'gensrc', '@INPUT@', '@OUTPUT@'], depends: [])\n"]
    top.append("genh = generator(py, output: '@BASENAME@.h', arguments: ['@SOURCE_ROOT@/gen.py', 'genhdr', '@INPUT@', '@OUTPUT@'])\n")
    if spec.get('subp'):
        top.append("subp_dep = subproject('subp').get_variable('subp_dep')\n")

    def c_body(e: T.Dict[str, T.Any], fn: str) -> str:
        lines = []
        terms = []
        for h in e.get('uses', []):
            lines.append(f'#include "{hdr_file(h)}"')
            terms.append(hdr_macro(h))
        for p in e.get('pairs', []) + e.get('pair_hdr_only', []):
            lines.append(f'#include "{outpath(byname[p], p + ".h")}"')
            terms.append(f'{p.upper()}_VAL')
        for p in e.get('pairs', []):
            terms.append(f'{p}_f()')
        for g in e.get('gsrcs', []):
            lines.append(f'int {g}_f(void);')
            terms.append(f'{g}_f()')
        for l in e.get('link_with', []) + e.get('link_whole', []) + ([e['extract_from']] if e.get('extract_from') else []):
            lines.append(f'int {l}_f(void);')
            terms.append(f'{l}_f()')
        if e.get('cpp'):
            lines += [f"int {e['name']}_x(void);", f"int {e['name']}_gx(void);"]
            terms += [f"{e['name']}_x()", f"{e['name']}_gx()"]
        if e.get('gtool_src'):
            lines.append(f"int {e['gtool_src']}_f(void);")
            terms.append(f"{e['gtool_src']}_f()")
        for d in e.get('deps', []):
            for h in byname[d]['hdrs']:
                lines.append(f'#include "{hdr_file(h)}"')
                terms.append(hdr_macro(h))
            for l in byname[d]['link_with']:
                lines.append(f'int {l}_f(void);')
                terms.append(f'{l}_f()')
        if e.get('ghdr'):
            lines.append(f'#include "{e["name"]}_pub.h"')
            terms.append(f'{e["name"].upper()}_PUB')
        reach = link_closure(e, byname)
        for l in e.get('ghdr_of', []):
            # (only while the library is still linked: scenario minimisation removes links)
            if l in reach and byname[l].get('ghdr') and byname[l]['libkind'] in ('static_library', 'shared_library'):
                lines.append(f'#include "{ghdr_path(byname[l], segs)}"')
                terms.append(f'{l.upper()}_PUB')
        if e.get('subp'):
            lines.append('#include "subp_gen.h"')
            lines.append('int subp_f(void);')
            terms += ['SUBP_VAL', 'subp_f()']
        expr = ' + '.join(terms or ['0'])
        if fn == 'main':
            lines.append('#include <stdio.h>')
            lines.append(f'int main(int argc, char **argv) {{ int v = {expr}; if (argc > 1) {{ FILE *f = fopen(argv[1], "w"); if (!f) return 2; '
                         f'fprintf(f, "value %d\\n", v); fclose(f); }} else {{ printf("value %d\\n", v); }} return 0; }}')
        else:
            lines.append(f'int {fn}(void) {{ return {expr}; }}')
        return '\n'.join(lines) + '\n'
    for e in ents:
        out = files.setdefault(e['seg'], [])
        d = subdir_of(e)
        srcdir = os.path.join(sd, d) if d else sd
        os.makedirs(srcdir, exist_ok=True)
        k = e['kind']
        n = e['name']
        if k == 'cfg':
            out.append(f"{n} = configure_file(output: '{n}.h', configuration: {{'{e['macro']}': {e['val']}}})\n")
        elif k == 'value':
            extra = ", depend_files: datafile" if e.get('depend_files') else ''
            args = ", '@SOURCE_ROOT@/data.txt'" if e.get('depend_files') else ''
            out.append(f"{n} = custom_target('{n}', output: '{n}.txt', command: [py, genpy, 'value', '@OUTPUT@', '{e['val']}'{args}]{extra})\n")
        elif k == 'hdr':
            kw = []
            args = [q('define'), q('@OUTPUT@'), q(e['macro']), q(str(e['val']))]
            if e['inputs']:
                kw.append('input: [' + ', '.join(e['inputs']) + ']')
                args.append(q('@INPUT@'))
            for dname in e['depends']:
                args.append(q('@BUILD_ROOT@/' + value_file(dname)))
            if e['depends']:
                kw.append('depends: [' + ', '.join(e['depends']) + ']')
            if e.get('depend_files'):
                kw.append('depend_files: datafile')
                args.append(q('@SOURCE_ROOT@/data.txt'))
            out.append(f"{n} = custom_target('{n}', output: '{n}{hext(e)}', command: [py, genpy, {', '.join(args)}]{''.join(', ' + x for x in kw)})\n")
        elif k == 'pair':
            kw = []
            args = [q('pair'), q('@OUTPUT0@'), q('@OUTPUT1@'), q(n), q(str(e['val']))]
            if e['inputs']:
                kw.append('input: [' + ', '.join(e['inputs']) + ']')
                args.append(q('@INPUT@'))
            out.append(f"{n} = custom_target('{n}', output: ['{n}.c', '{n}.h'], command: [py, genpy, {', '.join(args)}]{''.join(', ' + x for x in kw)})\n")
        elif k == 'gsrc':
            with open(os.path.join(srcdir, f'{n}.tpl'), 'w') as f:
                f.write(n + ' ' + ' '.join(f'{hdr_file(h)}:{hdr_macro(h)}' for h in e['uses']) + '\n')
            out.append(f"{n} = gen.process('{n}.tpl')\n")
        elif k in ('lib', 'exe'):
            fn = f'{n}.c'
            with open(os.path.join(srcdir, fn), 'w') as f:
                f.write(c_body(e, 'main' if k == 'exe' else f'{n}_f'))
            srcs = [q(fn)]
            depobjs = list(e.get('deps', []))
            hdr_objs = [h for h in e.get('uses', []) if byname[h]['kind'] != 'cfg']
            if e.get('hdr_via') == 'dep' and hdr_objs:
                import zlib
                if zlib.crc32(n.encode()) % 2 == 0:
                    # (every second one) the generated headers sit in a sources-only dependency nested in another one, and
                    # the target takes a partial_dependency(sources: true) of the outer one
                    out.append(f"{n}_hdrdep_in = declare_dependency(sources: [{', '.join(hdr_objs)}])\n"
                               f"{n}_hdrdep_out = declare_dependency(dependencies: {n}_hdrdep_in, compile_args: ['-DVIA_NESTED_DEP'])\n"
                               f"{n}_hdrdep = {n}_hdrdep_out.partial_dependency(compile_args: true, includes: true, sources: true)\n")
                else:
                    out.append(f"{n}_hdrdep = declare_dependency(sources: [{', '.join(hdr_objs)}])\n")
                depobjs.append(f'{n}_hdrdep')
            else:
                srcs += hdr_objs
            srcs += e.get('pairs', [])
            srcs += [f'{p}[1]' for p in e.get('pair_hdr_only', [])]
            # generator outputs need the headers they include to be ordered before them too
            for g in e.get('gsrcs', []):
                srcs.append(g)
                for h in byname[g]['uses']:
                    if byname[h]['kind'] != 'cfg' and h not in srcs and h not in hdr_objs:
                        srcs.append(h)
            if e.get('subp'):
                depobjs.append('subp_dep')
            kw = ['include_directories: inc']
            if e.get('extract_from'):
                kw.append(f"objects: [{e['extract_from']}.extract_all_objects(recursive: false)]")
            if e.get('gtool_src'):
                with open(os.path.join(srcdir, f"{e['gtool_src']}.tpl2"), 'w') as f:
                    f.write(f"int {e['gtool_src']}_f(void) {{ return 4; }}\n")
                srcs.append(f"gen2.process('{e['gtool_src']}.tpl2')")
            if e.get('ghdr'):
                with open(os.path.join(srcdir, f'{n}_pub.hin'), 'w') as f:
                    f.write(f'{n.upper()}_PUB {3 + len(n)}\n')
                srcs.append(f"genh.process('{n}_pub.hin')")
            if e.get('cpp'):
                with open(os.path.join(srcdir, f'{n}_x.cpp'), 'w') as f:
                    f.write(f'extern "C" int {n}_x(void) {{ return 2; }}\n')
                out.append(f"gx_{n} = custom_target('gx_{n}', output: '{n}_gx.cpp', command: [py, genpy, 'gencpp', '@OUTPUT@', '{n}_gx'])\n")
                srcs += [q(f'{n}_x.cpp'), f'gx_{n}']
            if e.get('vscript'):
                out.append(f"vs_{n} = custom_target('vs_{n}', output: 'vs_{n}.map', command: [py, genpy, 'vscript', '@OUTPUT@'])\n")
                kw.append(f"link_args: ['-Wl,--version-script,' + (meson.current_build_dir() / 'vs_{n}.map')]")
                kw.append(f"link_depends: vs_{n}")
            if e.get('pch'):
                os.makedirs(os.path.join(srcdir, 'pch'), exist_ok=True)
                with open(os.path.join(srcdir, 'pch', f'{n}_pch.h'), 'w') as f:
                    f.write('#include <stddef.h>\n' + ''.join(f'#include "{hdr_file(h)}"\n' for h in e.get('uses', []) if h in byname))
                kw.append(f"c_pch: 'pch/{n}_pch.h'")
            if e.get('install'):
                kw.append('install: true')
            if e.get('link_with'):
                kw.append('link_with: [' + ', '.join(e['link_with']) + ']')
            if e.get('link_whole'):
                kw.append('link_whole: [' + ', '.join(e['link_whole']) + ']')
            if depobjs:
                kw.append('dependencies: [' + ', '.join(depobjs) + ']')
            func = e['libkind'] if k == 'lib' else 'executable'
            out.append(f"{n} = {func}('{n}', {', '.join(srcs)}, {', '.join(kw)})\n")
        elif k == 'gtool':
            with open(os.path.join(srcdir, 'gentool.c'), 'w') as f:
                f.write('#include <stdio.h>\nint main(int argc, char **argv) { if (argc < 3) return 2; FILE *i = fopen(argv[1], "r"); FILE *o = fopen(argv[2], "w"); '
                        'if (!i || !o) return 3; int c; while ((c = fgetc(i)) != EOF) fputc(c, o); fclose(i); fclose(o); return 0; }\n')
            out.append("gentool = executable('gentool', 'gentool.c', native: true)\n"
                       "gen2 = generator(gentool, output: '@BASENAME@_bt.c', arguments: ['@INPUT@', '@OUTPUT@'])\n")
        elif k == 'dep':
            kw = []
            if e['hdrs']:
                kw.append('sources: [' + ', '.join(e['hdrs']) + ']')
            kw.append('link_with: [' + ', '.join(e['link_with']) + ']')
            out.append(f"{n} = declare_dependency({', '.join(kw)})\n")
        elif k == 'run':
            if e.get('capture'):
                out.append(f"{n} = custom_target('{n}', output: '{n}.txt', command: [{e['exe']}], capture: true)\n")
            else:
                out.append(f"{n} = custom_target('{n}', output: '{n}.txt', command: [{e['exe']}, '@OUTPUT@'])\n")
    # assemble build files: consecutive segments alternate between the top file and subdir files
    last_seg = max(files) if files else 0
    for s in range(last_seg + 1):
        body = ''.join(files.get(s, []))
        d = segs[s]
        if d:
            os.makedirs(os.path.join(sd, d), exist_ok=True)
            with open(os.path.join(sd, d, 'meson.build'), 'w') as f:
                f.write(body)
            top.append(f"subdir('{d}')\n")
        else:
            top.append(body)
    with open(os.path.join(sd, 'meson.build'), 'w') as f:
        f.write(''.join(top))
    if spec.get('subp'):
        sp = os.path.join(sd, 'subprojects', 'subp')
        os.makedirs(sp, exist_ok=True)
        with open(os.path.join(sp, 'meson.build'), 'w') as f:
            f.write("project('subp', 'c')\npy = find_program('python3')\n"
                    f"subp_gen = custom_target('subp_gen', output: 'subp_gen.h', command: [py, files('subgen.py'), '@OUTPUT@', '{spec['subp_val']}'])\n"
                    "subp_lib = static_library('subp', 'subp.c', subp_gen)\n"
                    "subp_dep = declare_dependency(sources: subp_gen, link_with: subp_lib)\n")
        with open(os.path.join(sp, 'subgen.py'), 'w') as f:
            f.write("import sys\nopen(sys.argv[1], 'w').write('#pragma once\\n#define SUBP_VAL %s\\n' % sys.argv[2])\n")
        with open(os.path.join(sp, 'subp.c'), 'w') as f:
            f.write('#include "subp_gen.h"\nint subp_f(void) { return SUBP_VAL * 2; }\n')
