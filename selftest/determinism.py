"""Determinism self-test: the same VERIF_SEED must give bit-identical executions
- twice in a row, at another worker count, and in a fresh interpreter whose
  *harness* runs under a different PYTHONHASHSEED."""
from __future__ import annotations

import json
import os
import subprocess
import sys
import typing as T

from sim.core import env as E


def run_cfg(pid: str, n: int, jobs: int, hashseed: str, seed: str) -> T.Dict[int, T.Tuple[str, str, str]]:
    env = dict(os.environ, VERIF_HARNESS_HASHSEED=hashseed, PYTHONHASHSEED=hashseed, VERIF_SEED=seed)
    r = subprocess.run([E.PYTHON, os.path.join(E.VERIF_DIR, 'check'), pid, '--digests', str(n), '--jobs', str(jobs)],
                       capture_output=True, text=True, env=env, timeout=3600)
    if r.returncode != 0:
        raise RuntimeError(f'{pid} digests run failed: {r.stderr[-2000:]}')
    out = {}
    for line in r.stdout.splitlines():
        if line.startswith('{'):
            d = json.loads(line)
            out[d['index']] = (d['scenario'], d['outcome'], d['status'])
    return out


def main(a: T.Any) -> int:
    ids = a.rest or ['C12']
    n = int(os.environ.get('VERIF_DET_N', '120'))
    bad = 0
    for pid in ids:
        for seed in ('1', '7'):
            base = run_cfg(pid, n, 16, '0', seed)
            for (jobs, hs) in ((16, '0'), (3, '0'), (16, '4242')):
                other = run_cfg(pid, n, jobs, hs, seed)
                diff = [i for i in base if base[i][:2] != other.get(i, ('', ''))[:2]]
                print(f'{pid} seed={seed} jobs={jobs} harness-hashseed={hs}: {len(base)} scenarios, {len(diff)} differ'
                      + (f' (first: {diff[:5]})' if diff else ''))
                bad += len(diff)
            he = [i for i in base if base[i][2] == 'harness_error']
            if he:
                print(f'{pid}: harness errors at {he[:5]}')
                bad += len(he)
    return 1 if bad else 0
