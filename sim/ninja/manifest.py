"""Reference reader/evaluator for the subset of the ninja manifest language that
meson emits: variables, rules, build statements (explicit / implicit / order-only
inputs, implicit outputs, per-edge variables), pools, default, phony.
`dyndep`, `include` and `subninja` are rejected.

Scoping follows the ninja manual: paths in a build statement are expanded in the
file scope at parse time; rule variables (command, rspfile, ...) are expanded
lazily per edge with lookup order  $in/$out  ->  edge bindings  ->  rule
bindings  ->  file scope.
"""
from __future__ import annotations

import re
import typing as T


class ManifestError(Exception):
    pass


class Rule:
    def __init__(self, name: str) -> None:
        self.name = name
        self.vars: T.Dict[str, str] = {}      # raw (unexpanded) values


class Edge:
    def __init__(self, idx: int, rule: str, line: int) -> None:
        self.idx = idx
        self.rule = rule
        self.line = line
        self.outs: T.List[str] = []
        self.implicit_outs: T.List[str] = []
        self.ins: T.List[str] = []
        self.implicit: T.List[str] = []
        self.order_only: T.List[str] = []
        self.validations: T.List[str] = []
        self.vars: T.Dict[str, str] = {}      # expanded at parse time in file scope (as ninja does)

    @property
    def all_outs(self) -> T.List[str]:
        return self.outs + self.implicit_outs

    @property
    def all_ins(self) -> T.List[str]:
        return self.ins + self.implicit + self.order_only

    def __repr__(self) -> str:
        return f'<edge {self.idx} {self.rule} -> {self.outs}>'


_VAR = re.compile(r'\$(\$|\s|:|\{([A-Za-z0-9_.-]+)\}|([A-Za-z0-9_-]+))', re.S)


def expand(s: str, lookup: T.Callable[[str], str]) -> str:
    def rep(m: 're.Match[str]') -> str:
        g = m.group(1)
        if g == '$':
            return '$'
        if g == ':':
            return ':'
        if g.isspace():
            return g if g != '\n' else ''
        name = m.group(2) or m.group(3)
        return lookup(name)
    return _VAR.sub(rep, s)


def split_paths(s: str) -> T.List[T.Tuple[str, str]]:
    """Splits a build-line fragment on unescaped blanks and separators; returns (kind, raw-token)
    where kind is 'path', ':' , '|', '||' or '|@'."""
    out: T.List[T.Tuple[str, str]] = []
    i, n = 0, len(s)
    cur = ''
    while i < n:
        c = s[i]
        if c == '$' and i + 1 < n:
            # keep escapes for expand()
            if s[i + 1] == '\n':
                i += 2
                while i < n and s[i] in ' \t':
                    i += 1
                continue
            cur += s[i:i + 2]
            i += 2
            continue
        if c in ' \t\n':
            if cur:
                out.append(('path', cur))
                cur = ''
            i += 1
            continue
        if c == ':':
            if cur:
                out.append(('path', cur))
                cur = ''
            out.append((':', ':'))
            i += 1
            continue
        if c == '|':
            if cur:
                out.append(('path', cur))
                cur = ''
            if s[i:i + 2] == '||':
                out.append(('||', '||'))
                i += 2
            elif s[i:i + 2] == '|@':
                out.append(('|@', '|@'))
                i += 2
            else:
                out.append(('|', '|'))
                i += 1
            continue
        cur += c
        i += 1
    if cur:
        out.append(('path', cur))
    return out


class Manifest:
    def __init__(self) -> None:
        self.vars: T.Dict[str, str] = {}
        self.rules: T.Dict[str, Rule] = {'phony': Rule('phony')}
        self.edges: T.List[Edge] = []
        self.defaults: T.List[str] = []
        self.pools: T.Dict[str, int] = {'console': 1}
        self.producer: T.Dict[str, Edge] = {}

    # ---- parsing
    @classmethod
    def parse(cls, text: str) -> 'Manifest':
        m = cls()
        # join "$\n" continuations first (indentation of the continued line is dropped)
        lines: T.List[T.Tuple[int, str]] = []
        raw = text.split('\n')
        i = 0
        while i < len(raw):
            ln = raw[i]
            start = i + 1
            while ln.endswith('$') and not ln.endswith('$$') and i + 1 < len(raw):
                i += 1
                ln = ln[:-1] + raw[i].lstrip(' \t')
            lines.append((start, ln))
            i += 1
        cur_rule: T.Optional[Rule] = None
        cur_edge: T.Optional[Edge] = None
        cur_pool: T.Optional[str] = None

        def file_lookup(name: str) -> str:
            return m.vars.get(name, '')
        for lineno, ln in lines:
            if not ln.strip() or ln.lstrip().startswith('#'):
                continue
            indented = ln[0] in ' \t'
            body = ln.strip()
            if indented:
                mm = re.match(r'([A-Za-z0-9_.-]+)\s*=\s?(.*)$', body, re.S)
                if not mm:
                    raise ManifestError(f'line {lineno}: expected binding, got {body!r}')
                k, v = mm.group(1), mm.group(2)
                if cur_rule is not None:
                    cur_rule.vars[k] = v
                elif cur_edge is not None:
                    # edge bindings are evaluated immediately, in file scope plus earlier edge bindings
                    e = cur_edge
                    cur_edge.vars[k] = expand(v, lambda nm: e.vars.get(nm, m.vars.get(nm, '')))
                elif cur_pool is not None:
                    if k == 'depth':
                        m.pools[cur_pool] = int(v)
                else:
                    raise ManifestError(f'line {lineno}: binding outside of a block')
                continue
            cur_rule = cur_edge = None
            cur_pool = None
            if body.startswith('rule '):
                name = body[5:].strip()
                if name in m.rules:
                    raise ManifestError(f'line {lineno}: duplicate rule {name}')
                cur_rule = m.rules[name] = Rule(name)
            elif body.startswith('build '):
                toks = split_paths(body[6:])
                e = Edge(len(m.edges), '', lineno)
                section = 'outs'
                seen_colon = False
                k = 0
                while k < len(toks):
                    kind, tok = toks[k]
                    if kind == ':':
                        if seen_colon:
                            raise ManifestError(f'line {lineno}: second colon')
                        seen_colon = True
                        k += 1
                        if k >= len(toks) or toks[k][0] != 'path':
                            raise ManifestError(f'line {lineno}: missing rule name')
                        e.rule = toks[k][1]
                        section = 'ins'
                    elif kind == '|':
                        section = 'implicit_outs' if not seen_colon else 'implicit'
                    elif kind == '||':
                        section = 'order_only'
                    elif kind == '|@':
                        section = 'validations'
                    else:
                        getattr(e, section).append(expand(tok, file_lookup))
                    k += 1
                if not seen_colon:
                    raise ManifestError(f'line {lineno}: build statement without colon')
                if e.rule not in m.rules:
                    raise ManifestError(f'line {lineno}: unknown rule {e.rule!r}')
                m.edges.append(e)
                cur_edge = e
            elif body.startswith('default '):
                m.defaults += [expand(t, file_lookup) for k_, t in split_paths(body[8:]) if k_ == 'path']
            elif body.startswith('pool '):
                cur_pool = body[5:].strip()
                m.pools[cur_pool] = 0
            elif body.startswith(('include ', 'subninja ')):
                raise ManifestError(f'line {lineno}: include/subninja not supported')
            else:
                mm = re.match(r'([A-Za-z0-9_.-]+)\s*=\s?(.*)$', body, re.S)
                if not mm:
                    raise ManifestError(f'line {lineno}: cannot parse {body!r}')
                m.vars[mm.group(1)] = expand(mm.group(2), file_lookup)
        for e in m.edges:
            if 'dyndep' in e.vars or 'dyndep' in m.rules[e.rule].vars:
                raise ManifestError(f'line {e.line}: dyndep not supported')
            for o in e.all_outs:
                if o in m.producer:
                    raise ManifestError(f'line {e.line}: multiple rules generate {o} (also line {m.producer[o].line})')
                m.producer[o] = e
        return m

    # ---- evaluation
    @staticmethod
    def shell_escape(p: str) -> str:
        if re.fullmatch(r'[A-Za-z0-9_+\-./]+', p):
            return p
        return "'" + p.replace("'", "'\\''") + "'"

    def edge_var(self, e: Edge, name: str, _depth: int = 0) -> str:
        if _depth > 20:
            raise ManifestError(f'variable cycle at {name}')
        if name == 'in':
            return ' '.join(self.shell_escape(p) for p in e.ins)
        if name == 'in_newline':
            return '\n'.join(self.shell_escape(p) for p in e.ins)
        if name == 'out':
            return ' '.join(self.shell_escape(p) for p in e.outs)
        if name in e.vars:
            return e.vars[name]
        r = self.rules[e.rule]
        if name in r.vars:
            return expand(r.vars[name], lambda nm: self.edge_var(e, nm, _depth + 1))
        return self.vars.get(name, '')

    def command(self, e: Edge) -> str:
        return self.edge_var(e, 'command')

    # ---- graph helpers
    def sanity(self, exists: T.Callable[[str], bool]) -> T.List[str]:
        """Problems that make the graph unexecutable under any schedule."""
        problems = []
        # cycles
        color: T.Dict[int, int] = {}

        def visit(e: Edge, stack: T.List[int]) -> None:
            color[e.idx] = 1
            for i in e.all_ins:
                p = self.producer.get(i)
                if p is None:
                    continue
                if color.get(p.idx, 0) == 1:
                    problems.append(f'dependency cycle through {i}')
                elif color.get(p.idx, 0) == 0:
                    visit(p, stack + [e.idx])
            color[e.idx] = 2
        import sys
        sys.setrecursionlimit(max(10000, sys.getrecursionlimit()))
        for e in self.edges:
            if color.get(e.idx, 0) == 0:
                visit(e, [])
        for e in self.edges:
            for i in e.ins + e.implicit:
                if i not in self.producer and not exists(i):
                    problems.append(f'line {e.line}: input {i} of {e.outs[:1]} is neither produced by a build statement nor an existing file')
        return problems

    def wanted_edges(self, targets: T.Optional[T.Sequence[str]] = None) -> T.List[Edge]:
        """Edges reachable from the targets (default: the `default` statement, else everything)."""
        roots = list(targets) if targets else (self.defaults or [o for e in self.edges for o in e.outs])
        seen: T.Set[int] = set()
        order: T.List[Edge] = []

        def visit(path: str) -> None:
            p = self.producer.get(path)
            if p is None or p.idx in seen:
                return
            seen.add(p.idx)
            for i in p.all_ins:
                visit(i)
            order.append(p)
        for r in roots:
            visit(r)
        return order

    def ancestors(self, e: Edge) -> T.Set[int]:
        out: T.Set[int] = set()
        stack = list(e.all_ins)
        while stack:
            i = stack.pop()
            p = self.producer.get(i)
            if p is None or p.idx in out:
                continue
            out.add(p.idx)
            stack += p.all_ins
        return out
