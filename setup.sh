#!/bin/sh
# Offline build of everything the checks need. Idempotent.
set -e
cd "$(dirname "$0")"
mkdir -p build evidence replays
if [ -f sim/crash/shim.c ]; then
    gcc -O2 -shared -fPIC -o build/vshim.so sim/crash/shim.c -ldl
fi
/venv/bin/python - <<'PY'
import sys
sys.path.insert(0, '.')
import sim.core.runner, sim.aio.loop, models.tap_ref, models.mtest_ref
print('verif setup ok')
PY
