#!/venv/bin/python
"""Regenerates MANIFEST.json from the table below (keeps it valid at all times)."""
import json, os
HERE = os.path.dirname(os.path.abspath(__file__))
PIN = 'cd /repo && /venv/bin/python -m pytest -ra -q -p no:cacheprovider --timeout=900 --continue-on-collection-errors'

NA = {
 'C01': 'value of a build description is a pure function of its text; no schedule, clock, peer, storage fault or crash point for a simulator to own (DESIGN §4)',
 'C02': 'parser/printer round trip is a pure function of the input string (DESIGN §4)',
 'C03': 'argv quoting through meson -> ninja -> sh is deterministic function composition over argument strings; nothing is scheduled, timed or faulted (DESIGN §4)',
 'C04': 'well-formedness/closure of one generated manifest is a static graph property of one configure run; no schedule or fault in the statement (DESIGN §4)',
 'C07': 'option-source precedence is a decision table over who set what: pure function of the sources (DESIGN §4)',
 'C13': 'CompilerArgs is a single-threaded in-memory structure; its histories are call sequences (inputs) with no interleaving, I/O or failure (DESIGN §4)',
 'C14': 'template substitution is a pure function of template text and data (DESIGN §4)',
 'C15': 'relation between files written by one configure run; no history, schedule or fault in the statement (DESIGN §4)',
 'C16': 'formatter output is a pure function of text and options (DESIGN §4)',
 'C17': 'rewriter edits are a pure function of project text and command list (DESIGN §4)',
 'C19': 'version order axioms / range algebra over strings: pure (DESIGN §4)',
 'C20': 'cargo semver matching and cfg() evaluation: pure (DESIGN §4)',
}

CHECKS = {
 'C12': dict(engine='aio-sim', level='exploration', technique='deterministic simulation: real mtest harness on a virtual-time asyncio loop with scripted child processes, seeded schedules and fault injection (timeouts, SIGTERM-ignoring children, orphaned pipes, ties, maxfail cancellation), invariants on every spawn/exit event plus history checks against a reference classification model',
   text='Seeded search over simulated `meson test` executions: every spawn/exit/signal is an event of the simulator, so job bound, serial exclusion and at-most-once are checked on each event and the classification/tally/exit-status claims on the recorded history. A clean batch is evidence over the sampled schedules, not a proof.',
   note='Trusted: the simulator (sim/aio/loop.py) models pipes/child exit/signals faithfully to CPython 3.12 asyncio on Linux; the reference model models/mtest_ref.py transcribes the documented classification rule. Real code: mesonbuild.mtest, asyncio streams/subprocess protocol/transport base classes.', ref='DESIGN §3 C12'),
}
CHECKS['C18'] = dict(engine='aio-sim', level='exploration', technique='deterministic simulation: scripted TAP producer processes on the virtual-time loop; byte stream chunked/delayed/cut at arbitrary offsets (crash, kill, timeout), exit status delivered independently; delivered prefix checked line by line against an independent TAP reference interpreter, streamed run vs direct parse for chunking invariance, verdict folded with exit status',
   text='Seeded search over producer behaviours (what is written, how it is chunked, where the stream is cut, how the process ends). The line grammar itself is a function of its input; what the simulation adds and decides is the stream surface named in the statement: truncated streams (unterminated YAML, missing plan, partial last line), exit status arriving independently of the stream, and chunk/timing invariance of the derived events.',
   note='Trusted: models/tap_ref.py (hand-written from the TAP 12/13 documents; undecided forms are marked and nothing is demanded on them); simulator pipe model. Real code: read_decode, TAPParser, TestRunTAP, loggers, asyncio StreamReader.', ref='DESIGN §3 C18')
CHECKS['C09'] = dict(engine='crash-shim', level='fault_enumeration', technique='fault injection by enumeration of crash points: the real command runs under an LD_PRELOAD interposer that numbers every file-system mutation and SIGKILLs the process before call k (and mid-write for torn writes); every k of each command is visited on seeded build-directory histories, then the documented recovery is run, option values are compared with the pre/post states and every pickled state file the recovered directory refers to must load',
   text='Per (history, command) the set of kill points is enumerated completely in the thorough tier (all n mutation points, plus torn variants of data writes); histories, projects and commands are sampled by seed. Quick visits every point that touches a state file or is a rename/unlink/rmdir plus a seeded sample of the rest.',
   note='Trusted: the interposer sees every mutating libc call of the main process (open*/write*/rename*/unlink*/mkdir*/rmdir/fsync/truncate/link/symlink/chmod/utimensat/sendfile/copy_file_range); process-kill crash model (completed calls persist). Recovery, read-back and the command itself are real code of the tree.', ref='DESIGN §3 C09')
CHECKS['C08'] = dict(engine='proc-sim', level='exploration', technique='deterministic simulation of process histories over persistent state: each lifecycle command runs in its own forked child over one build directory, with seeded option assignments, option-file edits and injected failures (invalid -D, armed error(), a post-configuration script failing after the state files were written, OSError at the k-th storage call); a reference model is stepped after every operation and compared with get_option() values, command outcomes and the recorded command line',
   text='Seeded search over bounded histories (2-12 steps) incl. option-file edits (add/remove/rename/narrow/widen/default/range), machine-file values, both spellings of top-level options and top-level-only overrides of built-ins. Fault-free and fault-injecting histories are generated separately so the failed-step relaxation never hides a persistence bug.',
   note='Trusted: models/options_ref.py (written from the statement; cases the statement does not decide are marked undetermined and followed, not judged). Real code: msetup, mconf, coredata, cmdline, OptionStore, interpreter.', ref='DESIGN §3 C08')
CHECKS['C10'] = dict(engine='proc-sim+net', level='exploration', technique='deterministic simulation with fault injection: real interpreter/dependency()/wrap.Resolver in a forked child against a scripted fake HTTP server, simulated back-off clock, digest-recording unpacker and a private pkg-config world; faults (URLError, OSError, truncated body, flipped byte, substituted archive, corrupt cache/packagefiles, failing patch/diff) injected at each acquisition step; results compared with a transcription of the documented policy, integrity invariants checked on every unpack, and the world is configured a second time',
   text='Seeded search over the policy cross product and over fault sequences along fetch -> verify -> unpack -> patch -> diff, each world configured twice in fresh build directories so that what a failed run leaves behind is also judged, and a third time in the first build directory under other fallback settings so that what an earlier run cached cannot decide. The fault-free cross product named in the quantifier (12,960 cells) is enumerated completely at the start of the thorough tier.',
   note='Trusted: models/deps_ref.py (policy and acquisition procedure written from the statement and the manuals; an unverifiable corrupt local archive is marked undetermined), fake server implements info()/read()/close() only. Real code: DependencyFallbacksHolder, pkg-config detection with the real binary, wrap.Resolver incl. patch(1).', ref='DESIGN §3 C10')
CHECKS['C11'] = dict(engine='proc-sim+fs', level='exploration', technique='deterministic simulation of install histories over a persistent DESTDIR: each install/uninstall step runs in a forked child whose every file-system mutation is observed through an audit hook (containment, dry-run), with simulator-chosen ambient umask, mtime skew (the clock --only-changed depends on), pre-populated DESTDIR and DESTDIR source; resulting trees compared with a reference model computed from the project spec',
   text='Seeded search over generated install rule sets and bounded histories (install, reinstall, --only-changed, --dry-run, --tags, --skip-subprojects - also combined in one command -, uninstall). Containment is checked on every recorded mutation, exactness and reversibility on the tree after each step.',
   note='Trusted: models/install_ref.py (destinations, modes, tags from the documented rules); the audit hook sees all Python-level mutations of the in-process installer (no external helper runs: --strip is not generated, run paths are rewritten by the in-process depfixer); installed ELF files are judged against the built file up to the rewritten run path. Real code: create_install_data, minstall.Installer incl. install_targets/depfixer, scripts/uninstall; compiled targets are built for real by the C05 reference executor.', ref='DESIGN §3 C11')
CHECKS['C05'] = dict(engine='ninja-sim', level='exploration', technique='deterministic simulation of the build scheduler: the real generated build.ninja is executed by a reference ninja (parser + evaluator + executor written for this check) whose choice among ready edges is seeded/adversarial; the injected fault is absence - each edge is replayed hermetically with only configure-time files and the declared outputs of its ancestors present; outputs compared by digest across schedules',
   text='Seeded search over generated C/C++ projects and over schedules (reverse, consumers-first, generators-last, random) plus a complete per-edge hermetic replay for every sampled project; a declaration-order build that fails is judged against the most forgiving order instead of being skipped.',
   note='Trusted: sim/ninja implements the manifest subset meson emits (scoping per the ninja manual); steps are atomic; first builds only. Real code: meson setup with the ninja backend, cc/ar/sh/python steps.', ref='DESIGN §3 C05')
CHECKS['C06'] = dict(engine='nd-seams', level='exploration', technique='deterministic simulation of the nondeterminism itself: the same project and options are configured several times at one build-dir path under simulator-chosen PYTHONHASHSEED, environment order/padding, directory-listing permutation and history (fresh, reconfigure, configure round trip, wipe, source edits that keep size and time stamp) and compared byte for byte with a baseline; a clock jump (uniform back-dating) precedes a no-change reconfigure to check untouched mtimes',
   text='Seeded search over projects, seam settings and histories; each group is 5-8 real meson processes.',
   note='Trusted: the launcher wraps os.listdir/os.scandir (hence os.walk/glob/Path.iterdir); same tools and paths within a group. Real code: whole configure pipeline in a real interpreter per configuration.', ref='DESIGN §3 C06')
PENDING = {
}
m = {
 'version': 1,
 'setup_cmd': './setup.sh',
 'hooks': {'guard': 'MESON_VERIF_SIM', 'enable': 'no hook exists in /repo: every seam is reached from outside (event-loop policy, attribute patching in forked children, PATH, LD_PRELOAD, audit hooks); the guard name is reserved and unused',
           'baseline_off_cmd': PIN, 'source_commits': [], 'add_only': True},
 'engines': [
   {'name': 'ninja-sim', 'path': 'sim/ninja', 'serves_properties': ['C05'], 'kind_free_text': 'reference ninja: manifest parser/evaluator + executor whose scheduler is the simulator; hermetic per-edge replay'},
   {'name': 'nd-seams', 'path': 'sim/nd', 'serves_properties': ['C06'], 'kind_free_text': 'launcher that puts hash seed, environment order/padding and directory-listing order of a real meson process under simulator control'},
   {'name': 'proc-sim', 'path': 'sim/core', 'serves_properties': ['C08', 'C10', 'C11'], 'kind_free_text': 'warm host process forking one child per meson command over shared persistent state (build dir / DESTDIR / subprojects); seams patched inside the child'},
   {'name': 'crash-shim', 'path': 'sim/crash', 'serves_properties': ['C09'], 'kind_free_text': 'LD_PRELOAD interposer (C) numbering file-system mutations of the main process and killing it at point k; forked-child recovery runs'},
   {'name': 'aio-sim', 'path': 'sim/aio', 'serves_properties': ['C12', 'C18'], 'kind_free_text': 'virtual-time asyncio event loop + scripted child processes/pipes/signals; real asyncio stream + subprocess protocol stack on top'},
 ],
 'checks': [],
 'not_applicable': [],
 'notes': 'Technique family: deterministic simulation with fault injection. fix: commits in /repo are listed in known_findings.jsonl.',
}
for pid, c in sorted(CHECKS.items()):
    m['checks'].append({
      'property_id': pid, 'quick_cmd': f'./check {pid} --tier quick', 'thorough_cmd': f'./check {pid} --tier thorough',
      'evidence_file': f'evidence/{pid}.json', 'replay_cmd_template': f'./check {pid} --replay {{path}}', 'engine': c['engine'],
      'level_claimed': {'category': c['level'], 'text': c['text'], 'design_ref': c['ref']}, 'level_note': c['note'], 'technique': c['technique']})
for pid, why in sorted({**NA, **PENDING}.items()):
    m['not_applicable'].append({'property_id': pid, 'reason': why})
json.dump(m, open(os.path.join(HERE, 'MANIFEST.json'), 'w'), indent=1)
print('ok', len(m['checks']), 'checks', len(m['not_applicable']), 'n/a')
