"""Reference model of option state across the build-directory lifecycle
(C08), written from the property statement and the documentation.

State kept by the model:
    files    - option definitions currently in the option files (top / sub)
    known    - definitions as of the last successful (re)configuration
    vals     - stored values of project options ('s', 'sub:ss', ...)
    builtin  - stored top-level built-ins (buildtype, warning_level, ...)
    aug      - per-subproject overrides of built-ins ('sub:warning_level')
    cmdline  - every -D ever recorded (what --wipe replays)
    configured

`effective()` is what a reconfiguration at this instant reports through
get_option(): stored values reconciled with the current option files.
"""
from __future__ import annotations

import copy
import typing as T

SUB = 'sub'
BUILTIN_DEFAULTS = {'buildtype': 'debug', 'warning_level': '1', 'default_library': 'shared', 'werror': 'false'}
BUILDTYPE_DEP = {'plain': ('false', 'plain'), 'debug': ('true', '0'), 'debugoptimized': ('true', '2'),
                 'release': ('false', '3'), 'minsize': ('true', 's')}
BUILTIN_CHOICES = {
    'buildtype': ['plain', 'debug', 'debugoptimized', 'release', 'minsize'],
    'warning_level': ['0', '1', '2', '3', 'everything'],
    'default_library': ['shared', 'static', 'both'],
    'werror': ['true', 'false'],
}


class Invalid(Exception):
    pass


def split_key(k: str) -> T.Tuple[T.Optional[str], str]:
    """'name' -> (None, name); ':name' -> ('', name): the top-level project only; 'sub:name' -> ('sub', name)."""
    if k.startswith(':'):
        return '', k[1:]
    if k.startswith(SUB + ':'):
        return SUB, k.split(':', 1)[1]
    return None, k


def fmt(o: T.Dict[str, T.Any], v: T.Any) -> str:
    """How '@0@'.format(get_option(x)) prints a value."""
    t = o['type']
    if t == 'boolean':
        return 'true' if v else 'false'
    if t == 'array':
        return '[' + ', '.join("'" + x + "'" for x in v) + ']'
    return str(v)


def parse_cli(o: T.Dict[str, T.Any], s: str) -> T.Any:
    """Validate a -D string against a definition; returns the typed value or raises Invalid."""
    t = o['type']
    if t == 'string':
        return s
    if t == 'boolean':
        if s.lower() == 'true':
            return True
        if s.lower() == 'false':
            return False
        raise Invalid(s)
    if t == 'integer':
        try:
            v = int(s)
        except ValueError:
            raise Invalid(s)
        if ('min' in o and v < o['min']) or ('max' in o and v > o['max']):
            raise Invalid(s)
        return v
    if t == 'combo':
        if s not in o['choices']:
            raise Invalid(s)
        return s
    if t == 'array':
        items = [x for x in s.split(',')] if s != '' else []
        for x in items:
            if 'choices' in o and x not in o['choices']:
                raise Invalid(s)
        return items
    if t == 'feature':
        if s not in ('enabled', 'disabled', 'auto'):
            raise Invalid(s)
        return s
    raise AssertionError(t)


def valid_under(o: T.Dict[str, T.Any], v: T.Any) -> bool:
    t = o['type']
    if t == 'combo':
        return v in o['choices']
    if t == 'integer':
        return o.get('min', v) <= v <= o.get('max', v)
    if t == 'array':
        return all(x in o['choices'] for x in v) if 'choices' in o else True
    return True


class Model:
    def __init__(self, spec: T.Dict[str, T.Any]) -> None:
        self.files: T.Dict[str, T.Optional[T.Dict[str, T.Dict[str, T.Any]]]] = {
            'top': {o['name']: copy.deepcopy(o) for o in spec['top']},
            'sub': {o['name']: copy.deepcopy(o) for o in spec['sub']} if spec.get('sub') is not None else None,
        }
        self.known: T.Dict[str, T.Optional[T.Dict[str, T.Dict[str, T.Any]]]] = {'top': {}, 'sub': None}
        self.vals: T.Dict[str, T.Any] = {}
        self.builtin: T.Dict[str, str] = {}
        self.aug: T.Dict[str, str] = {}
        self.own: T.Set[str] = set()     # yielding subproject options the user gave a value of their own
        self.cmdline: T.Dict[str, str] = {}
        self.configured = False
        # values a machine file (--native-file) sets: below every -D, above the defaults of the option files,
        # consulted whenever the configuration is derived afresh (first setup, --wipe) once the file is on record
        self.native: T.Dict[str, str] = dict(spec.get('native') or {})
        self.native_recorded = False

    # ------------------------------------------------------------ helpers
    def clone(self) -> 'Model':
        return copy.deepcopy(self)

    def _def_for(self, key: str, table: T.Dict[str, T.Any]) -> T.Optional[T.Dict[str, T.Any]]:
        if key.startswith(':'):
            return table['top'].get(key[1:])       # ':opt' is the top-level project's option `opt`
        if key.startswith(SUB + ':'):
            t = table.get('sub')
            return None if t is None else t.get(key.split(':', 1)[1])
        return table['top'].get(key)

    def apply_edit(self, ed: T.Dict[str, T.Any]) -> None:
        tbl = self.files[ed['where']]
        assert tbl is not None
        if ed['kind'] == 'add':
            tbl.setdefault(ed['opt']['name'], copy.deepcopy(ed['opt']))
        elif ed['kind'] == 'remove':
            tbl.pop(ed['name'], None)
        elif ed['kind'] == 'swap':
            tbl.pop(ed['name'], None)
            tbl.setdefault(ed['opt']['name'], copy.deepcopy(ed['opt']))
        else:
            o = tbl.get(ed['name'])
            if o is None:
                return
            if ed['kind'] == 'choices':
                o['choices'], o['value'] = list(ed['choices']), ed['value']
            elif ed['kind'] == 'default':
                o['value'] = ed['value']
            elif ed['kind'] == 'range':
                o['min'], o['max'], o['value'] = ed['min'], ed['max'], ed['value']

    # ------------------------------------------------------------ assignments
    def check_assignments(self, D: T.Dict[str, str], table: T.Dict[str, T.Any]) -> T.Dict[str, T.Any]:
        """Validate -D assignments against `table` (files or known); returns typed values, raises Invalid."""
        out: T.Dict[str, T.Any] = {}
        for k, s in D.items():
            name = split_key(k)[1]
            if name in BUILTIN_CHOICES:
                if k.startswith(SUB + ':') and table.get('sub') is None:
                    raise Invalid(k)
                if s not in BUILTIN_CHOICES[name]:
                    raise Invalid(f'{k}={s}')
                out[k] = s
                continue
            d = self._def_for(k, table)
            if d is None:
                raise Invalid(f'unknown option {k}')
            out[k] = parse_cli(d, s)
        return out

    def _store(self, typed: T.Dict[str, T.Any]) -> None:
        for k, v in typed.items():
            proj, name = split_key(k)
            if name in BUILTIN_CHOICES:
                if proj is not None:
                    self.aug[k] = v          # 'sub:k' and ':k' (top-level project only) override the global value
                else:
                    self.builtin[k] = v
            else:
                if proj == '':
                    k = name                 # ':opt' and 'opt' are one and the same project option
                self.vals[k] = v
                if k.startswith(SUB + ':'):
                    d = (self.files.get('sub') or {}).get(name)
                    if d is not None and d.get('yield'):
                        self.own.add(k)     # an explicit value stops the option from following its parent

    def _reconcile(self) -> None:
        """Bring stored project options in line with the current option files."""
        newvals: T.Dict[str, T.Any] = {}
        for side in ('top', 'sub'):
            tbl = self.files[side]
            if tbl is None:
                continue
            ktbl = self.known.get(side) or {}
            for name, o in tbl.items():
                key = name if side == 'top' else f'{SUB}:{name}'
                if name in ktbl and key in self.vals and ktbl[name]['type'] == o['type']:
                    v = self.vals[key]
                    newvals[key] = v if valid_under(o, v) else copy.deepcopy(o['value'])
                else:
                    newvals[key] = copy.deepcopy(o['value'])
        self.vals = newvals
        self.known = copy.deepcopy(self.files)
        if self.files['sub'] is None:
            self.aug = {k: v for k, v in self.aug.items() if k.startswith(':')}
        self.own = {k for k in self.own if (self.files.get('sub') or {}).get(k.split(':', 1)[1], {}).get('yield')}

    # ------------------------------------------------------------ operations (return True = predicted success)
    def fresh(self, D: T.Dict[str, str], low: T.Optional[T.Dict[str, str]] = None) -> bool:
        """First configuration (or re-derivation): defaults of the current files overlaid with the machine
        file's values (low), overlaid with D."""
        try:
            typed_low = self.check_assignments({k: v for k, v in (low or {}).items() if k not in D}, self.files)   # type: ignore[arg-type]
            typed = self.check_assignments(D, self.files)   # type: ignore[arg-type]
        except Invalid:
            return False
        self.known = {'top': {}, 'sub': None}
        self.vals = {}
        self.builtin = dict(BUILTIN_DEFAULTS)
        self.aug = {}
        self.own = set()
        self._reconcile()
        self._store(typed_low)
        self._store(typed)
        self.configured = True
        return True

    def setup(self, D: T.Dict[str, str], native: bool = False) -> bool:
        merged = dict(self.cmdline)      # a leftover cmd_line.txt (failed wipe) is honoured, its machine files too
        for k, v in D.items():
            merged.pop(k, None)
            merged[k] = v
        use_native = bool(self.native) and (native or self.native_recorded)
        m = self.clone()
        if not m.fresh(merged, self.native if use_native else None):
            return False
        self.__dict__.update(m.__dict__)
        self.cmdline = merged
        self.native_recorded = use_native
        return True

    def configure(self, D: T.Dict[str, str], U: T.Sequence[str]) -> T.Optional[bool]:
        if set(D) & set(U):
            return None                                    # same key set and unset in one command: undecided
        m = self.clone()
        m._reconcile()                                     # `meson configure` notices edited option files
        try:
            typed = m.check_assignments(D, m.files)        # type: ignore[arg-type]
        except Invalid:
            return False
        for k in U:
            if k in m.aug or k in m.own:
                continue
            # -U of a subproject's project option that has nothing to drop is a harmless no-op;
            # -U of a built-in that has no per-subproject override is an error
            nm = split_key(k)[1]
            if k.startswith(SUB + ':') and nm not in BUILTIN_CHOICES and nm in (m.files.get('sub') or {}):
                continue
            return False
        # `meson configure` only writes the store back when the command changes something; a command
        # whose assignments all equal the current values leaves the directory as it was (options that
        # appeared in an edited option file are then not created yet) - but it is still recorded
        changed = bool(U)
        for k, v in typed.items():
            proj, name = split_key(k)
            if name in BUILTIN_CHOICES:
                cur = m.aug.get(k, object()) if proj is not None else m.builtin.get(k)
            else:
                cur = m.vals.get(name if proj == '' else k, object())
                d = (m.files.get('sub') or {}).get(name) if k.startswith(SUB + ':') else None
                if d is not None and d.get('yield') and k not in m.own:
                    changed = True       # pinning a yielding option is a change even if the stored value is equal
            if cur != v:
                changed = True
        if changed:
            m._store(typed)
            for k in U:
                m.aug.pop(k, None)
                m.own.discard(k)
            self.__dict__.update(m.__dict__)
        self.record(D)
        for k in U:
            self.cmdline.pop(k, None)
        return True

    def reconfigure(self, D: T.Dict[str, str], observed_ok: T.Optional[bool] = None) -> T.Optional[bool]:
        """-D on a reconfigure is decided by the statement only when it is valid (or invalid) both for the
        option definitions the directory already knows and for the current option files; a value for an
        option that is only now appearing, or that only one of the two accepts, is undetermined: the
        model then follows what was observed (None is returned)."""
        m = self.clone()
        ok_known = ok_files = True
        try:
            m.check_assignments(D, m.known)                # type: ignore[arg-type]
        except Invalid:
            ok_known = False
        try:
            typed = m.check_assignments(D, m.files)        # type: ignore[arg-type]
        except Invalid:
            ok_files = False
            typed = {}
        if not ok_known and not ok_files:
            return False
        if ok_known != ok_files:
            if not observed_ok or not ok_files:
                return None if observed_ok is not None and not observed_ok else (None if observed_ok is None else self._undetermined_success(D))
            m._reconcile()
            m._store(typed)
            self.__dict__.update(m.__dict__)
            self.record(D)
            return None
        # values given for options that are only now becoming known are applied after reconciliation
        m._reconcile()
        m._store(typed)
        self.__dict__.update(m.__dict__)
        self.record(D)
        return True

    def _undetermined_success(self, D: T.Dict[str, str]) -> None:
        # accepted although the current files reject it: re-read the files, keep what is still valid
        self._reconcile()
        return None

    def wipe(self) -> T.Optional[bool]:
        """True: succeeds; False: fails and leaves only the recorded command line behind."""
        m = self.clone()
        if not m.fresh(dict(self.cmdline), self.native if self.native_recorded else None):
            self.configured = False
            self.known = {'top': {}, 'sub': None}
            self.vals, self.builtin, self.aug = {}, {}, {}
            self.own = set()
            return False
        cl = self.cmdline
        self.__dict__.update(m.__dict__)
        self.cmdline = cl
        return True

    def record(self, D: T.Dict[str, str]) -> None:
        """The recorded command line is replayed in the order in which the assignments were last given
        (an option can be on record under two spellings, 'opt' and ':opt')."""
        for k, v in D.items():
            self.cmdline.pop(k, None)
            self.cmdline[k] = v

    # ------------------------------------------------------------ observation
    def effective(self) -> T.Dict[str, str]:
        """'proj:name' -> printed value, as a reconfiguration right now would report it."""
        m = self.clone()
        m._reconcile()
        out: T.Dict[str, str] = {}
        top = m.files['top'] or {}
        for name, o in top.items():
            out[':' + name] = fmt(o, m.vals[name])
        bt = m.builtin['buildtype']
        dbg, opt = BUILDTYPE_DEP[bt]
        tb = dict(m.builtin)
        tb['debug'], tb['optimization'] = dbg, opt
        for k in ('buildtype', 'debug', 'optimization', 'warning_level', 'default_library'):
            out[':' + k] = m.aug.get(':' + k, tb[k])
        sub = m.files['sub']
        if sub is not None:
            for name, o in sub.items():
                key = f'{SUB}:{name}'
                if o.get('yield') and name in top and top[name]['type'] == o['type'] and key not in m.own:
                    out[key] = fmt(top[name], m.vals[name])
                else:
                    out[key] = fmt(o, m.vals[key])
            for k in ('buildtype', 'debug', 'optimization', 'warning_level', 'default_library'):
                out[f'{SUB}:{k}'] = m.aug.get(f'{SUB}:{k}', tb[k])
        return out
