"""Reference decision procedures for C10 (DESIGN Appendix A.1): the documented
dependency() fallback policy and the acquisition of a wrap-file subproject,
transcribed from the property statement, Subprojects.md,
Wrap-dependency-system-manual.md and dependency.yaml - not from the code.
"""
from __future__ import annotations

import copy
import re
import typing as T

SUBNAME = 'foosub'
SUBDIR = 'foosub-1.0'
UNPATCHED_VERSION = '0.1'
MAX_ATTEMPTS = 6          # get_data_with_backoff: delays 1,2,4,8,16 then a last try


# ---------------------------------------------------------------- versions
def _vtuple(v: str) -> T.Tuple[int, ...]:
    return tuple(int(x) for x in re.findall(r'\d+', v))


def version_ok(found: T.Optional[str], constraint: T.Optional[str]) -> bool:
    if not constraint:
        return True
    if found is None or found == 'undefined':
        return False
    m = re.match(r'(>=|<=|==|!=|>|<|=)?\s*(.*)', constraint)
    assert m
    op, ver = m.group(1) or '==', m.group(2)
    a, b = _vtuple(found), _vtuple(ver)
    n = max(len(a), len(b))
    a, b = a + (0,) * (n - len(a)), b + (0,) * (n - len(b))
    return {'>=': a >= b, '<=': a <= b, '==': a == b, '=': a == b, '!=': a != b, '>': a > b, '<': a < b}[op]


# ---------------------------------------------------------------- acquisition of the wrap subproject
class Acq(T.NamedTuple):
    ok: bool
    stage: str              # where it failed: '', 'nodownload', 'source', 'patch', 'diff', 'buildfile'
    patched: bool           # the tree carries the overlay
    requests: T.Dict[str, int]   # url -> number of requests the procedure makes


def _fetch(role: str, spec: T.Dict[str, T.Any], net: T.Dict[str, T.List[str]], wrap_mode: str,
           reqs: T.Dict[str, int], urls: T.Dict[str, str]) -> bool:
    """One archive obtained through cache or URL(s); returns True when a verified file is available."""
    cache = spec.get('cache', 'none')
    hash_ok = spec.get('hash_ok', True)
    if cache != 'none':
        # a cache hit is re-verified; a bad entry is an error, it is not re-downloaded
        return cache == 'good' and hash_ok
    if wrap_mode == 'nodownload':
        return False
    for which in (['primary', 'fallback'] if spec.get('fallback_url') else ['primary']):
        url = urls[f'{role}_{which}']
        seq = net.get(url, [])
        got: T.Optional[str] = None
        n = 0
        for attempt in range(MAX_ATTEMPTS):
            kind = seq[attempt] if attempt < len(seq) else 'ok'
            n += 1
            if kind in ('err', 'oserr'):
                continue
            got = kind
            break
        reqs[url] = reqs.get(url, 0) + n
        if got in ('ok', 'nolen') and hash_ok:
            spec['cache_after'] = 'good'
            return True
        # wrong content (or a wrong recorded hash): never used; next URL if any
    return False


def acquire(sub: T.Dict[str, T.Any], net: T.Dict[str, T.List[str]], wrap_mode: str, urls: T.Dict[str, str]) -> Acq:
    reqs: T.Dict[str, int] = {}
    if sub['kind'] == 'dir' or sub.get('dir_present'):
        return Acq(True, '', bool(sub.get('dir_patched', True)), reqs)
    w = sub['wrap']
    if not _fetch('source', w['source'], net, wrap_mode, reqs, urls):
        return Acq(False, 'nodownload' if (wrap_mode == 'nodownload' and w['source'].get('cache', 'none') == 'none') else 'source', False, reqs)
    patched = False
    p = w.get('patch')
    if p is not None:
        if p['via'] == 'url':
            if not _fetch('patch', p, net, wrap_mode, reqs, urls):
                return Acq(False, 'patch', False, reqs)
        elif p['via'] == 'packagefiles':
            if not p.get('present', True):
                return Acq(False, 'patch', False, reqs)
            if p.get('hash', 'absent') != 'absent' and (p.get('hash') == 'wrong' or p.get('corrupt')):
                return Acq(False, 'patch', False, reqs)
            if p.get('corrupt'):
                # no hash recorded: nothing to verify against; unpacking a damaged archive fails with
                # whatever the unpacker raises - how that is reported is not decided by the statement
                return Acq(False, 'patch-unpack', False, reqs)
        elif p['via'] == 'directory':
            if not p.get('present', True):
                return Acq(False, 'patch', False, reqs)
        patched = True
    d = w.get('diff')
    if d is not None:
        if d != 'good':
            return Acq(False, 'diff', False, reqs)
    has_buildfile = w.get('upstream_has_buildfile', True) or patched
    if not has_buildfile:
        return Acq(False, 'buildfile', patched, reqs)
    return Acq(True, '', patched or p is None, reqs)


# ---------------------------------------------------------------- dependency() policy
class State:
    def __init__(self) -> None:
        self.overrides: T.Dict[str, T.Tuple[bool, str, T.Optional[str]]] = {}   # name -> (found, type, version)
        self.sub_state: T.Optional[str] = None      # None = not attempted, 'ok', 'failed'
        self.sub_acq: T.Optional[Acq] = None
        self.requests: T.Dict[str, int] = {}


NOTFOUND = (False, 'not-found', None)


def sub_yield(sub: T.Dict[str, T.Any], acq: Acq) -> T.Tuple[T.Optional[str], bool, bool]:
    """(version, overrides foo?, exposes variable foo_dep?) of the configured subproject tree."""
    version = sub['version'] if acq.patched else UNPATCHED_VERSION
    prov = sub.get('provides', 'both')
    return version, prov in ('override', 'both'), prov in ('variable', 'both')


def lookup(call: T.Dict[str, T.Any], world: T.Dict[str, T.Any], st: State, urls: T.Dict[str, str]) -> T.Union[str, T.Tuple[bool, str, T.Optional[str]]]:
    """Returns (found, type_name, version) or 'ERROR'."""
    name = 'foo'
    sub = world.get('sub')
    wrap_mode = world.get('wrap_mode', 'default')
    fff = world.get('fff', [])
    required = call.get('required', True)
    constraint = call.get('version')
    fb = call.get('fallback')
    allow = call.get('allow_fallback')
    if fb is not None and len(fb) == 0:
        allow, fb = False, None
    sub_name: T.Optional[str] = None
    varname: T.Optional[str] = None
    if fb:
        sub_name = fb[0]
        varname = fb[1] if len(fb) > 1 else None
    forced = wrap_mode == 'forcefallback' or name in fff or (sub_name is not None and sub_name in fff)
    provide_var: T.Optional[str] = None
    provides = False
    if sub is not None and sub.get('wrapfile'):
        pv = sub['wrap'].get('provide')
        if pv == 'names':
            provides = True
        elif pv:
            provides, provide_var = True, pv
    if sub_name is None and allow is not False and provides:
        forced = forced or SUBNAME in fff
        if forced or allow is True or required or st.sub_state == 'ok':
            sub_name = SUBNAME
    if sub_name is not None and varname is None:
        varname = provide_var

    def fail() -> T.Union[str, T.Tuple[bool, str, T.Optional[str]]]:
        return 'ERROR' if required else NOTFOUND

    def from_sub() -> T.Union[str, T.Tuple[bool, str, T.Optional[str]]]:
        assert sub is not None and st.sub_acq is not None
        version, does_override, has_var = sub_yield(sub, st.sub_acq)
        if does_override:
            # the subproject registered an override for the name: that dependency, version-checked
            if not version_ok(version, constraint):
                return fail()
            return (True, 'internal', version)
        if not varname or not has_var:
            return fail()
        if not version_ok(version, constraint):
            return fail()
        return (True, 'internal', version)

    # 1. an override registered for the name (explicit, or implicit after the first successful lookup)
    if name in st.overrides:
        found, typ, ver = st.overrides[name]
        if not found:
            return fail()
        if not version_ok(ver, constraint):
            return fail()
        return (found, typ, ver)
    # 2. the fallback subproject is configured already: never fall through to the system
    if sub_name is not None and sub_name == SUBNAME and st.sub_state == 'ok':
        r = from_sub()
        if (r == 'ERROR' or not r[0]) and world.get('cached_sys') and not forced:
            # ... except in a build directory where an earlier configuration already resolved the name from the system:
            # the statement wants the system dependency whenever it is present, matching and fallback is not forced, and
            # that earlier answer is still on record (observed on the tree: "found: YES (cached)")
            sysv = world.get('sys')
            if sysv is not None and version_ok(sysv, constraint):
                r3c = (True, 'pkgconfig', sysv)
                st.overrides.setdefault(name, r3c)
                return r3c
        if r != 'ERROR' and r[0]:
            st.overrides.setdefault(name, r)       # type: ignore[arg-type]
        return r
    # 3. the system, unless fallback is forced and there is a subproject to fall back to
    if not (forced and sub_name is not None):
        sysv = world.get('sys')
        if sysv is not None and version_ok(sysv, constraint):
            r3 = (True, 'pkgconfig', sysv)
            st.overrides.setdefault(name, r3)
            return r3
    # 4. configure the fallback subproject
    # (force_fallback_for takes precedence over --wrap-mode=nofallback: Subprojects.md)
    if sub_name is not None and (wrap_mode != 'nofallback' or forced):
        if sub_name != SUBNAME or sub is None:
            return fail()                          # no such subproject anywhere
        if st.sub_state is None:
            acq = acquire(sub, world.get('net', {}), wrap_mode, urls)
            for u, n in acq.requests.items():
                st.requests[u] = st.requests.get(u, 0) + n
            st.sub_acq = acq
            if not acq.ok:
                st.sub_state = 'failed'
            elif not sub.get('configures', True):
                st.sub_state = 'failed'
            else:
                st.sub_state = 'ok'
                version, does_override, _ = sub_yield(sub, acq)
                if does_override:
                    st.overrides[name] = (True, 'internal', version)
        if st.sub_state != 'ok':
            if st.sub_acq is not None and st.sub_acq.stage == 'patch-unpack':
                return 'ERROR' if required else 'EITHER'
            return fail()
        r = from_sub()
        if r != 'ERROR' and r[0]:
            st.overrides.setdefault(name, r)       # type: ignore[arg-type]
        return r
    return fail()


def run_config(world: T.Dict[str, T.Any], urls: T.Dict[str, str]) -> T.Tuple[T.List[T.Any], State]:
    """All dependency() calls of one configuration, in order; stops at the first error."""
    st = State()
    out: T.List[T.Any] = []
    for pre in world.get('pre', []):
        if pre['kind'] == 'override':
            # meson.override_dependency() in the top project: wins over everything for later lookups
            st.overrides['foo'] = (True, 'internal', pre['version']) if pre.get('found', True) else (False, 'not-found', None)
        elif pre['kind'] == 'subproject':
            # an unconditional subproject('foosub', required: false) call: not subject to nofallback
            sub = world.get('sub')
            if sub is None:
                continue
            acq = acquire(sub, world.get('net', {}), world.get('wrap_mode', 'default'), urls)
            for u, n in acq.requests.items():
                st.requests[u] = st.requests.get(u, 0) + n
            st.sub_acq = acq
            if acq.ok and sub.get('configures', True):
                st.sub_state = 'ok'
                version, does_override, _ = sub_yield(sub, acq)
                if does_override:
                    st.overrides.setdefault('foo', (True, 'internal', version))
            else:
                st.sub_state = 'failed'
                if acq.stage == 'patch-unpack':
                    # how an unverifiable damaged archive is reported by subproject() is undetermined
                    return ['UNDETERMINED'], st
    for call in world['calls']:
        r = lookup(call, world, st, urls)
        out.append(r)
        if r in ('ERROR', 'EITHER'):
            break
    return out, st


def world_after(world: T.Dict[str, T.Any], st: State) -> T.Dict[str, T.Any]:
    """The persistent world a second run starts from: caches filled by successful downloads, the
    subproject directory present iff acquisition succeeded, no network faults any more."""
    w = copy.deepcopy(world)
    w['net'] = {}
    sub = w.get('sub')
    if sub is not None and sub['kind'] == 'wrap' and st.sub_acq is not None:
        for role in ('source', 'patch'):
            spec = sub['wrap'].get(role) if role == 'patch' else sub['wrap']['source']
            if spec and spec.get('cache_after'):
                spec['cache'] = spec.pop('cache_after')
        if st.sub_acq.ok:
            sub['dir_present'] = True
            sub['dir_patched'] = st.sub_acq.patched
    return w
