"""Generated option-bearing projects (top project + one subproject) shared by
C08 and C09: spec generation, rendering, value drawing, option-file edits."""
from __future__ import annotations

import copy
import json
import os
import random
import typing as T

TOP = 'optp'
SUB = 'sub'

TOP_POOL: T.List[T.Dict[str, T.Any]] = [
    {'name': 's', 'type': 'string', 'value': 'sdef'},
    {'name': 'b', 'type': 'boolean', 'value': True},
    {'name': 'i', 'type': 'integer', 'value': 3, 'min': 0, 'max': 10},
    {'name': 'c', 'type': 'combo', 'choices': ['one', 'two', 'three'], 'value': 'one'},
    {'name': 'a', 'type': 'array', 'choices': ['x', 'y', 'z'], 'value': ['x']},
    {'name': 'f', 'type': 'feature', 'value': 'auto'},
    {'name': 'yy', 'type': 'string', 'value': 'topyy'},
    {'name': 'yc', 'type': 'combo', 'choices': ['k1', 'k2', 'k3'], 'value': 'k1'},
]
SUB_POOL: T.List[T.Dict[str, T.Any]] = [
    {'name': 'ss', 'type': 'string', 'value': 'subdef'},
    {'name': 'sc', 'type': 'combo', 'choices': ['p', 'q', 'r'], 'value': 'p'},
    {'name': 'sb', 'type': 'boolean', 'value': False},
    {'name': 'yy', 'type': 'string', 'value': 'subyy', 'yield': True},
    {'name': 'yc', 'type': 'combo', 'choices': ['k1', 'k2', 'k3'], 'value': 'k2', 'yield': True},
]
EXTRA_POOL: T.List[T.Dict[str, T.Any]] = [   # options that edits may add later
    {'name': 'n1', 'type': 'string', 'value': 'new1'},
    {'name': 'n2', 'type': 'combo', 'choices': ['u', 'v'], 'value': 'v'},
    {'name': 'n3', 'type': 'integer', 'value': 7, 'min': 1, 'max': 9},
]


def q(s: str) -> str:
    return "'" + s.replace('\\', '\\\\').replace("'", "\\'") + "'"


def lit(v: T.Any) -> str:
    if isinstance(v, bool):
        return 'true' if v else 'false'
    if isinstance(v, int):
        return str(v)
    if isinstance(v, list):
        return '[' + ', '.join(q(x) for x in v) + ']'
    return q(str(v))


def opt_stmt(o: T.Dict[str, T.Any]) -> str:
    kw = [f"type: {q(o['type'])}", f"value: {lit(o['value'])}"]
    if 'choices' in o:
        kw.append('choices: ' + lit(o['choices']))
    if 'min' in o:
        kw.append(f"min: {o['min']}")
    if 'max' in o:
        kw.append(f"max: {o['max']}")
    if o.get('yield'):
        kw.append('yield: true')
    return f"option({q(o['name'])}, {', '.join(kw)})\n"


def gen_spec(rng: random.Random) -> T.Dict[str, T.Any]:
    top = [copy.deepcopy(o) for o in TOP_POOL if rng.random() < 0.75 or o['name'] in ('s', 'yy')]
    have_sub = rng.random() < 0.8
    sub = [copy.deepcopy(o) for o in SUB_POOL if rng.random() < 0.8 or o['name'] == 'ss'] if have_sub else None
    for yn in ('yy', 'yc'):
        if sub is not None and not any(o['name'] == yn for o in top):
            sub = [o for o in sub if o['name'] != yn]
    spec: T.Dict[str, T.Any] = {'top': top, 'sub': sub, 'backend': 'none',
                                'top_defaults': rng.choice([[], [], ['warning_level=2'], ['buildtype=release'], ['default_library=static']]),
                                'sub_defaults': rng.choice([[], [], ['warning_level=0'], ['default_library=both']])}
    return spec


BUILD_TMPL = """project({name}, version: '1.0', default_options: {defaults}, meson_version: '>=1.1.0')
fs = import('fs')
foreach o : {optnames}
  message('OPT {proj}:' + o + '=' + '@0@'.format(get_option(o)))
endforeach
foreach o : ['buildtype', 'debug', 'optimization', 'warning_level', 'default_library']
  message('OPT {proj}:' + o + '=' + '@0@'.format(get_option(o)))
endforeach
{subproject}
if fs.exists(meson.current_source_dir() / 'ARMED_FAILURE')
  error('armed failure in {proj}')
endif
"""


def render(spec: T.Dict[str, T.Any], sd: str) -> None:
    os.makedirs(sd, exist_ok=True)
    sub = spec.get('sub')
    _write_atomic(os.path.join(sd, 'meson.build'),
                  BUILD_TMPL.format(name=q(TOP), proj='', defaults=lit(spec.get('top_defaults', [])),
                                    optnames=lit([o['name'] for o in spec['top']]),
                                    subproject=f"subproject({q(SUB)})" if sub is not None else ''))
    if spec.get('ct') and spec.get('backend') == 'ninja':
        # a custom target whose command has to be serialised (env: + capture:) into meson-private/meson_exe_*.dat,
        # named after a digest that follows the value of option `s`
        with open(os.path.join(sd, 'meson.build'), 'a') as f:
            f.write("ct_env = environment()\nct_env.set('C09_S', get_option('s'))\n"
                    "custom_target('c09cap', output: 'c09cap.txt', command: [find_program('sh'), '-c', 'echo captured'], env: ct_env, capture: true)\n")
    if spec.get('late'):
        # a post-configuration script that fails on demand: a failure *after* coredata.dat and cmd_line.txt were written
        with open(os.path.join(sd, 'meson.build'), 'a') as f:
            f.write("meson.add_postconf_script('latefail.sh')\n")
        _write_atomic(os.path.join(sd, 'latefail.sh'), '#!/bin/sh\ntest ! -e "$MESON_SOURCE_ROOT/ARMED_LATE"\n')
        os.chmod(os.path.join(sd, 'latefail.sh'), 0o755)
    write_options(os.path.join(sd, 'meson.options'), spec['top'])
    if sub is not None:
        d = os.path.join(sd, 'subprojects', SUB)
        os.makedirs(d, exist_ok=True)
        _write_atomic(os.path.join(d, 'meson.build'),
                      BUILD_TMPL.format(name=q(SUB), proj=SUB, defaults=lit(spec.get('sub_defaults', [])),
                                        optnames=lit([o['name'] for o in sub]), subproject=''))
        write_options(os.path.join(d, 'meson.options'), sub)


def _write_atomic(path: str, text: str) -> None:
    old = None
    if os.path.exists(path):
        with open(path) as f:
            old = f.read()
    if old == text:
        return
    tmp = path + '.tmp'
    with open(tmp, 'w') as f:
        f.write(text)
    os.replace(tmp, path)


def write_options(path: str, opts: T.List[T.Dict[str, T.Any]]) -> None:
    # write-then-rename so that an option-file "edit" is itself atomic
    _write_atomic(path, ''.join(opt_stmt(o) for o in opts))


def cli_value(v: T.Any) -> str:
    if isinstance(v, bool):
        return 'true' if v else 'false'
    if isinstance(v, list):
        return ','.join(v)
    return str(v)


def draw_value(rng: random.Random, o: T.Dict[str, T.Any], valid: bool = True) -> T.Any:
    t = o['type']
    if t == 'string':
        return rng.choice(['v1', 'v2', 'with space', 'sdef', '', 'x=y', 'ünï'])
    if t == 'boolean':
        return rng.choice([True, False]) if valid else 'maybe'
    if t == 'integer':
        if valid:
            return rng.randint(o.get('min', 0), o.get('max', 10))
        return rng.choice([o.get('max', 10) + 5, o.get('min', 0) - 3])
    if t == 'combo':
        return rng.choice(o['choices']) if valid else 'nope'
    if t == 'array':
        if valid:
            k = rng.randint(0, len(o['choices']))
            return sorted(rng.sample(o['choices'], k))
        return ['bogus']
    if t == 'feature':
        return rng.choice(['enabled', 'disabled', 'auto']) if valid else 'sometimes'
    raise AssertionError(t)


BUILTINS: T.Dict[str, T.List[str]] = {
    'buildtype': ['plain', 'debug', 'debugoptimized', 'release', 'minsize'],
    'warning_level': ['0', '1', '2', '3', 'everything'],
    'default_library': ['shared', 'static', 'both'],
    'debug': ['true', 'false'],
    'optimization': ['0', 'g', '1', '2', '3', 's'],
    'werror': ['true', 'false'],
    'unity': ['on', 'off', 'subprojects'],
}
SUB_OVERRIDABLE = ['warning_level', 'default_library', 'werror']


def draw_assignments(rng: random.Random, spec: T.Dict[str, T.Any], n: int, allow_invalid: float = 0.0) -> T.Dict[str, str]:
    """-D assignments: project options of top and sub, built-ins, per-subproject built-in overrides."""
    out: T.Dict[str, str] = {}
    for _ in range(n):
        kind = rng.choice(['top', 'top', 'sub', 'builtin', 'subbuiltin'])
        invalid = rng.random() < allow_invalid
        if kind == 'top' and spec['top']:
            o = rng.choice(spec['top'])
            out[o['name']] = cli_value(draw_value(rng, o, not invalid))
        elif kind == 'sub' and spec.get('sub'):
            cands = [o for o in spec['sub'] if not o.get('yield')]
            if cands:
                o = rng.choice(cands)
                out[f"{SUB}:{o['name']}"] = cli_value(draw_value(rng, o, not invalid))
        elif kind == 'builtin':
            k = rng.choice(['buildtype', 'warning_level', 'default_library', 'werror', 'debug', 'optimization'])
            out[k] = 'bogus' if invalid else rng.choice(BUILTINS[k])
        elif kind == 'subbuiltin' and spec.get('sub') is not None:
            k = rng.choice(SUB_OVERRIDABLE)
            out[f'{SUB}:{k}'] = 'bogus' if invalid else rng.choice(BUILTINS[k])
    return out


def draw_edit(rng: random.Random, spec: T.Dict[str, T.Any]) -> T.Optional[T.Dict[str, T.Any]]:
    """An edit of the top or the sub option file; returns a description and mutates nothing."""
    where = 'sub' if (spec.get('sub') is not None and rng.random() < 0.4) else 'top'
    opts = spec[where]
    kind = rng.choice(['add', 'remove', 'narrow', 'widen', 'default', 'range', 'swap'])
    if kind == 'swap':
        # one edit that removes an option and adds another (a rename): the file keeps its size
        have = {o['name'] for o in opts}
        cands = [o for o in EXTRA_POOL if o['name'] not in have]
        rem = [o for o in opts if o['name'] not in ('yy', 'yc')]
        if not cands or len(rem) <= 1:
            return None
        return {'where': where, 'kind': 'swap', 'name': rng.choice(rem)['name'], 'opt': copy.deepcopy(rng.choice(cands))}
    if kind == 'add':
        have = {o['name'] for o in opts}
        cands = [o for o in EXTRA_POOL if o['name'] not in have]
        if not cands:
            return None
        return {'where': where, 'kind': 'add', 'opt': copy.deepcopy(rng.choice(cands))}
    if kind == 'remove':
        cands = [o for o in opts if o['name'] not in ('yy', 'yc')]
        if len(cands) <= 1:
            return None
        return {'where': where, 'kind': 'remove', 'name': rng.choice(cands)['name']}
    if kind in ('narrow', 'widen'):
        cands = [o for o in opts if o['type'] == 'combo']
        if not cands:
            return None
        o = rng.choice(cands)
        if kind == 'narrow':
            if len(o['choices']) <= 1:
                return None
            keep = sorted(rng.sample(o['choices'], len(o['choices']) - 1), key=o['choices'].index)
            newdef = o['value'] if o['value'] in keep else keep[0]
            return {'where': where, 'kind': 'choices', 'name': o['name'], 'choices': keep, 'value': newdef}
        extra = [c for c in ['one', 'two', 'three', 'four', 'p', 'q', 'r', 's', 'u', 'v', 'w'] if c not in o['choices']]
        return {'where': where, 'kind': 'choices', 'name': o['name'], 'choices': o['choices'] + [extra[0]], 'value': o['value']}
    if kind == 'default':
        cands = [o for o in opts if o['type'] in ('string', 'boolean', 'combo', 'integer') and not o.get('yield')]
        if not cands:
            return None
        o = rng.choice(cands)
        nv = draw_value(rng, o, True)
        if nv == o['value']:
            return None
        return {'where': where, 'kind': 'default', 'name': o['name'], 'value': nv}
    if kind == 'range':
        cands = [o for o in opts if o['type'] == 'integer']
        if not cands:
            return None
        o = rng.choice(cands)
        lo = rng.randint(0, 4)
        hi = rng.randint(5, 10)
        val = o['value'] if lo <= o['value'] <= hi else lo
        return {'where': where, 'kind': 'range', 'name': o['name'], 'min': lo, 'max': hi, 'value': val}
    return None


def apply_edit(spec: T.Dict[str, T.Any], ed: T.Dict[str, T.Any]) -> None:
    opts = spec[ed['where']]
    if ed['kind'] == 'add':
        if not any(o['name'] == ed['opt']['name'] for o in opts):
            opts.append(copy.deepcopy(ed['opt']))
    elif ed['kind'] == 'remove':
        opts[:] = [o for o in opts if o['name'] != ed['name']]
    elif ed['kind'] == 'swap':
        opts[:] = [o for o in opts if o['name'] != ed['name']]
        if not any(o['name'] == ed['opt']['name'] for o in opts):
            opts.append(copy.deepcopy(ed['opt']))
    else:
        for o in opts:
            if o['name'] == ed['name']:
                if ed['kind'] == 'choices':
                    o['choices'] = list(ed['choices'])
                    o['value'] = ed['value']
                elif ed['kind'] == 'default':
                    o['value'] = ed['value']
                elif ed['kind'] == 'range':
                    o['min'], o['max'], o['value'] = ed['min'], ed['max'], ed['value']


def write_edit(spec: T.Dict[str, T.Any], sd: str, where: str) -> None:
    """An option-file edit; the build file's list of option names follows it
    (a build file may only name options that exist)."""
    render(spec, sd)


LONG_FORM = {'buildtype': '--buildtype', 'warning_level': '--warnlevel', 'default_library': '--default-library'}


def d_args(assign: T.Dict[str, str], long_keys: T.Sequence[str] = ()) -> T.List[str]:
    """-Dk=v, or the equivalent --long-option for the built-ins named in long_keys."""
    out = []
    for k, v in assign.items():
        if k in long_keys and k in LONG_FORM:
            out.append(f'{LONG_FORM[k]}={v}')
        else:
            out.append(f'-D{k}={v}')
    return out


def parse_buildoptions(js: str) -> T.Dict[str, T.Any]:
    """name -> value from `meson introspect --buildoptions` (host machine entries)."""
    out: T.Dict[str, T.Any] = {}
    for e in json.loads(js):
        if e.get('machine', 'any') == 'build':
            continue
        out[e['name']] = e['value']
    return out
