"""Runs every archived seeded change (/verif/seeded/<id>/patch.diff) against its check:
apply to /repo, run the quick check, undo.  Nothing is left applied, even on error."""
from __future__ import annotations

import json
import os
import subprocess
import sys
import time
import typing as T

from sim.core import env as E


def main(a: T.Any) -> int:
    base = os.path.join(E.VERIF_DIR, 'seeded')
    repo = E.repo_dir()
    if subprocess.run(['git', '-C', repo, 'status', '--porcelain', '--untracked-files=no'], capture_output=True, text=True).stdout.strip():
        print('refusing: /repo has uncommitted changes', file=sys.stderr)
        return 2
    want = set(a.rest)
    rows = []
    for name in sorted(os.listdir(base)):
        d = os.path.join(base, name)
        if want and name not in want and name.split('-')[0] not in want:
            continue
        meta = json.load(open(os.path.join(d, 'meta.json')))
        prop = meta['property']
        patch = os.path.join(d, 'patch.diff')
        ap = subprocess.run(['git', '-C', repo, 'apply', patch], capture_output=True, text=True)
        if ap.returncode != 0:
            rows.append((name, 'PATCH-DOES-NOT-APPLY', ap.stderr.strip()[:120]))
            print(f'{name:<10} patch does not apply any more: {ap.stderr.strip()[:200]}')
            continue
        try:
            t0 = time.time()
            env = dict(os.environ, VERIF_EVIDENCE_DIR='/tmp/verif-seeded-ev', VERIF_REPLAY_DIR='/tmp/verif-seeded-replays')
            r = subprocess.run([E.PYTHON, os.path.join(E.VERIF_DIR, 'check'), prop, '--tier', a.tier], capture_output=True, text=True, env=env, timeout=7200)
            cls = sorted({l.strip().split(' ')[0] for l in r.stdout.splitlines() if l.strip().startswith('class=')})
            res = 'DETECTED' if r.returncode == 1 and 'VIOLATION' in r.stdout else ('HARNESS-ERROR' if r.returncode == 2 else 'missed')
            rows.append((name, res, ','.join(cls)))
            print(f'{name:<10} {a.tier:<8} {res:<10} {",".join(cls)} ({time.time() - t0:.0f}s)', flush=True)
        finally:
            subprocess.run(['git', '-C', repo, 'checkout', '--', '.'], check=True)
    bad = [r for r in rows if r[1] != 'DETECTED']
    print(f'{len(rows) - len(bad)}/{len(rows)} seeded changes detected')
    return 0 if not bad else 1
