"""Reference model of `meson install` (C11): what the install rules of a
generated project specify, computed from the project *spec* (not from
install.dat): destination, kind, permission bits, content / link target.
"""
from __future__ import annotations

import hashlib
import os
import typing as T

PROJ = 'inst'
SUB = 'isub'
DEFAULT_DIRS = {'datadir': 'share', 'includedir': 'include', 'mandir': 'share/man'}


def perms(s: str) -> int:
    """'rwxr-x---' -> 0o750; s/S in the user/group execute slot = setuid/setgid (+x for lower case), t/T = sticky."""
    assert len(s) == 9
    v = 0
    for i, ch in enumerate(s):
        bit = 1 << (8 - i)
        if ch in 'rwx':
            v |= bit
        elif ch in 'sS' and i in (2, 5):
            v |= 0o4000 if i == 2 else 0o2000
            if ch == 's':
                v |= bit
        elif ch in 'tT' and i == 8:
            v |= 0o1000
            if ch == 't':
                v |= bit
    return v


def content_of(name: str) -> bytes:
    return (f'content of {name}\n' * 3).encode()


def conf_input(rule: T.Dict[str, T.Any]) -> bytes:
    return (f"# {rule['name']}\nwho = @WHO@\nkeep = @@ and 100%\n").encode()


def conf_output(rule: T.Dict[str, T.Any]) -> bytes:
    b = conf_input(rule)
    return b if rule['how'] == 'copy' else b.replace(b'@WHO@', b'meson')


def sha(b: bytes) -> str:
    return hashlib.sha256(b).hexdigest()[:16]


class Tree:
    def __init__(self) -> None:
        self.items: T.Dict[str, T.Tuple[T.Any, ...]] = {}

    def add_dir(self, path: str, mode: T.Optional[int], explicit: bool = False) -> None:
        path = os.path.normpath(path)
        if path in self.items and self.items[path][0] == 'dir' and not explicit:
            return
        self.items[path] = ('dir', mode)

    def add_parents(self, path: str, mode: int, root: str) -> None:
        path = os.path.normpath(path)
        parts = []
        while path not in ('/', '', root) and len(path) > len(root):
            parts.append(path)
            path = os.path.dirname(path)
        for p in reversed(parts):
            if p not in self.items:
                self.items[p] = ('dir', mode)

    def add_file(self, path: str, mode: int, digest: str) -> None:
        self.items[os.path.normpath(path)] = ('file', mode, digest)

    def add_link(self, path: str, target: str) -> None:
        self.items[os.path.normpath(path)] = ('link', target)


def target_files(rule: T.Dict[str, T.Any]) -> T.Tuple[str, T.List[T.Tuple[str, str, str]]]:
    """File name of a compiled target and its alias links (alias, points to, predefined tag)."""
    n = rule['name']
    if rule['ttype'] == 'exe':
        return n, []
    if rule['ttype'] == 'stlib':
        return f'lib{n}.a', []
    ver, sov = rule.get('version'), rule.get('soversion')
    if ver and not sov:
        sov = ver.split('.')[0]
    if not sov:
        return f'lib{n}.so', []
    if ver and ver != sov:
        real = f'lib{n}.so.{ver}'
        return real, [(f'lib{n}.so.{sov}', real, 'runtime'), (f'lib{n}.so', f'lib{n}.so.{sov}', 'devel')]
    real = f'lib{n}.so.{sov}'
    return real, [(f'lib{n}.so', real, 'devel')]


def dest_join(destdir: str, path: str) -> str:
    return os.path.normpath(destdir + '/' + path.lstrip('/'))


def expected_tree(spec: T.Dict[str, T.Any], destdir: str, opts: T.Dict[str, T.Any], ambient_umask: int) -> Tree:
    """Tree (absolute paths below destdir) that installing into an *empty* destdir creates."""
    t = Tree()
    prefix = spec['prefix']
    um = spec.get('umask', '022')
    preserve = um == 'preserve'
    umask = ambient_umask if preserve else int(um, 8)
    dirmode = 0o777 & ~umask
    fullprefix = dest_join(destdir, prefix)
    tags = opts.get('tags')
    skip = opts.get('skip_subprojects')

    def resolve(p: str) -> str:
        if p.startswith('/'):
            return dest_join(destdir, p)
        return os.path.normpath(os.path.join(fullprefix, p))

    def wanted(rule: T.Dict[str, T.Any], tag: T.Optional[str]) -> bool:
        if rule.get('sub') and skip is not None and (skip == '*' or SUB in skip.split(',')):
            return False
        if tags is not None and tag not in tags:
            return False
        return True

    def fmode(srcexec: bool, declared: T.Optional[str]) -> int:
        if declared is not None:
            return perms(declared)
        if preserve:
            return 0o755 if srcexec else 0o644
        return (0o777 if srcexec else 0o666) & ~umask

    # order of the installer: subdirs, (targets), headers, man, emptydir, data, symlinks
    order = {'subdir': 0, 'ctarget': 1, 'target': 1, 'headers': 2, 'man': 3, 'emptydir': 4, 'data': 5, 'conf': 5, 'symlink': 6}
    for rule in sorted(spec['rules'], key=lambda r: order[r['kind']]):
        k = rule['kind']
        if k == 'data':
            if not wanted(rule, rule.get('tag')):
                continue
            proj = SUB if rule.get('sub') else PROJ
            d = rule.get('dir') if rule.get('dir') is not None else f"{DEFAULT_DIRS['datadir']}/{proj}"
            for i, f in enumerate(rule['files']):
                name = rule['rename'][i] if rule.get('rename') else (f['name'] if rule.get('preserve_path') else os.path.basename(f['name']))
                dst = os.path.join(resolve(d), name)
                t.add_parents(os.path.dirname(dst), dirmode, destdir)
                if f.get('link_to') is not None:
                    if rule.get('follow') is False:
                        t.add_link(dst, f['link_to'])            # installed as the link it is; what it points to is left alone
                    else:
                        first = rule['files'][0]                 # (links to a sibling only) the file pointed to is copied
                        t.add_file(dst, fmode(first.get('exec', False), rule.get('mode')), sha(content_of(first['name'])))
                    continue
                t.add_file(dst, fmode(f.get('exec', False), rule.get('mode')), sha(content_of(f['name'])))
        elif k == 'ctarget':
            # an installed custom_target output (a file produced in the build directory)
            # (several outputs: one destination and tag per output, `false` = that output is not installed)
            for o in [{'name': rule['name'], 'dir': rule['dir'], 'tag': rule.get('tag'), 'exec': rule.get('exec', False)}] + rule.get('outs', []):
                if not o['dir'] or not wanted(rule, o.get('tag')):
                    continue
                dst = os.path.join(resolve(o['dir']), o['name'])
                t.add_parents(os.path.dirname(dst), dirmode, destdir)
                t.add_file(dst, fmode(o.get('exec', False), rule.get('mode')), sha(content_of('ctarget:' + o['name'])))
        elif k == 'conf':
            # an installed configure_file() output: installed like data, from the build directory
            if not wanted(rule, rule.get('tag')):
                continue
            dst = os.path.join(resolve(rule['dir']), rule['name'])
            t.add_parents(os.path.dirname(dst), dirmode, destdir)
            t.add_file(dst, fmode(False, rule.get('mode')), sha(conf_output(rule)))
        elif k == 'target':
            # a compiled build target (executable / shared library / static library) with install: true
            fname, aliases = target_files(rule)
            d = rule['dir'] if rule.get('dir') is not None else ('bin' if rule['ttype'] == 'exe' else 'lib')
            main_tag = rule.get('tag') or ('devel' if rule['ttype'] == 'stlib' else 'runtime')
            dst = os.path.join(resolve(d), fname)
            if wanted(rule, main_tag):
                t.add_parents(os.path.dirname(dst), dirmode, destdir)
                t.add_file(dst, fmode(rule['ttype'] != 'stlib', rule.get('mode')), 'TARGET:' + fname)
            for alias, to, default_tag in aliases:
                if wanted(rule, rule.get('tag') or default_tag):
                    adst = os.path.join(resolve(d), alias)
                    t.add_parents(os.path.dirname(adst), dirmode, destdir)
                    t.add_link(adst, to)
        elif k == 'headers':
            if not wanted(rule, 'devel'):
                continue
            d = DEFAULT_DIRS['includedir'] + ('/' + rule['subdir'] if rule.get('subdir') else '')
            for f in rule['files']:
                dst = os.path.join(resolve(d), f['name'] if rule.get('preserve_path') else os.path.basename(f['name']))
                t.add_parents(os.path.dirname(dst), dirmode, destdir)
                t.add_file(dst, fmode(f.get('exec', False), None), sha(content_of(f['name'])))
        elif k == 'man':
            if not wanted(rule, 'man'):
                continue
            for f in rule['files']:
                sect = f['name'].rsplit('.', 1)[1]
                loc = (rule['locale'] + '/') if rule.get('locale') else ''
                dst = os.path.join(resolve(f"{DEFAULT_DIRS['mandir']}/{loc}man{sect}"), os.path.basename(f['name']))
                t.add_parents(os.path.dirname(dst), dirmode, destdir)
                t.add_file(dst, fmode(False, None), sha(content_of(f['name'])))
        elif k == 'emptydir':
            if not wanted(rule, rule.get('tag')):
                continue
            dst = resolve(rule['path'])
            t.add_parents(os.path.dirname(dst), dirmode, destdir)
            t.add_dir(dst, perms(rule['mode']) if rule.get('mode') else dirmode, explicit=True)
        elif k == 'symlink':
            if not wanted(rule, rule.get('tag')):
                continue
            dst = os.path.join(resolve(rule['dir']), rule['name'])
            t.add_parents(os.path.dirname(dst), dirmode, destdir)
            t.add_link(dst, rule['target'])
        elif k == 'subdir':
            if not wanted(rule, rule.get('tag')):
                continue
            base = resolve(rule['dir'])
            top = base if rule.get('strip') else os.path.join(base, os.path.basename(rule['name']))
            t.add_parents(top, dirmode, destdir)
            t.add_dir(top, dirmode)
            exf = set(rule.get('exclude_files') or [])
            exd = set(rule.get('exclude_dirs') or [])

            def excluded_dir(rel: str) -> bool:
                return any(rel == e or rel.startswith(e + '/') for e in exd)
            for dname in rule.get('dirs', []):
                if excluded_dir(dname):
                    continue
                # directories of the source tree: source mode (0755 here), sanitised with the umask
                t.add_dir(os.path.join(top, dname), (0o755 if preserve else dirmode))
            for f in rule['entries']:
                rel = f['name']
                if rel in exf or excluded_dir(os.path.dirname(rel)):
                    continue
                dst = os.path.join(top, rel)
                t.add_file(dst, fmode(f.get('exec', False), rule.get('mode')), sha(content_of(rule['name'] + '/' + rel)))
    return t


def snapshot(root: str, skip: T.Optional[T.Set[str]] = None) -> T.Dict[str, T.Tuple[T.Any, ...]]:
    """Recursive listing of everything below root: kind, permission bits, link target / content digest."""
    out: T.Dict[str, T.Tuple[T.Any, ...]] = {}
    for dp, dn, fn in os.walk(root):
        for d in list(dn):
            p = os.path.join(dp, d)
            if os.path.islink(p):
                out[p] = ('link', os.readlink(p))
                dn.remove(d)
            else:
                out[p] = ('dir', os.lstat(p).st_mode & 0o7777)
        for f in fn:
            p = os.path.join(dp, f)
            if os.path.islink(p):
                out[p] = ('link', os.readlink(p))
            else:
                with open(p, 'rb') as fh:
                    out[p] = ('file', os.lstat(p).st_mode & 0o7777, sha(fh.read()))
    return out
