"""Process-level conventions: tree under test, scratch space, hash seed."""
from __future__ import annotations

import os
import shutil
import sys
import tempfile

VERIF_DIR = os.path.dirname(os.path.dirname(os.path.dirname(os.path.abspath(__file__))))
PYTHON = '/venv/bin/python' if os.path.exists('/venv/bin/python') else sys.executable


_REPO = os.path.abspath(os.environ.get('VERIF_REPO', '/repo'))


def repo_dir() -> str:
    # fixed at start-up: forked children run with a scrubbed environment
    return _REPO


def meson_py() -> str:
    return os.path.join(repo_dir(), 'meson.py')


def use_tree() -> None:
    """Make `import mesonbuild` resolve to the tree under test."""
    r = repo_dir()
    if sys.path[0:1] != [r]:
        sys.path.insert(0, r)
    if 'mesonbuild' in sys.modules:
        f = getattr(sys.modules['mesonbuild'], '__file__', '') or ''
        if not os.path.abspath(f).startswith(r + os.sep):
            raise RuntimeError(f'mesonbuild already imported from {f}, expected {r}')


def scratch_root() -> str:
    r = os.environ.get('VERIF_SCRATCH')
    if r:
        os.makedirs(r, exist_ok=True)
        return r
    if os.path.isdir('/dev/shm') and os.access('/dev/shm', os.W_OK):
        return '/dev/shm'
    return tempfile.gettempdir()


def mkscratch(tag: str) -> str:
    return tempfile.mkdtemp(prefix=f'verif-{os.getpid()}-{tag}-', dir=scratch_root())


def rmscratch(path: str) -> None:
    shutil.rmtree(path, ignore_errors=True)


def ensure_hashseed() -> None:
    """The harness itself runs under PYTHONHASHSEED=0 unless told otherwise
    (VERIF_HARNESS_HASHSEED lets the determinism self-test pick another)."""
    want = os.environ.get('VERIF_HARNESS_HASHSEED', '0')
    if os.environ.get('PYTHONHASHSEED') != want:
        env = dict(os.environ)
        env['PYTHONHASHSEED'] = want
        os.execve(sys.executable, [sys.executable] + sys.argv, env)
