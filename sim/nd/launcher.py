"""Child-side launcher for C06: runs the tree's meson with the nondeterminism
seams of this process under simulator control.

  PYTHONHASHSEED   - set by the parent (hash randomisation is fixed at interpreter start)
  environment      - order and padding chosen by the parent
  VERIF_ND_SEED    - seeds the permutation applied to every directory listing
                     (os.listdir, os.scandir and therefore os.walk / glob / Path.iterdir)
"""
import os
import random
import sys


def install_listing_permutation(seed: int) -> None:
    if seed == 0:
        return
    real_listdir = os.listdir
    real_scandir = os.scandir

    def rng_for(path: object) -> random.Random:
        return random.Random(f'{seed}:{os.fspath(path) if not isinstance(path, int) else path}')  # type: ignore[arg-type]

    def listdir(path: object = '.') -> list:
        out = list(real_listdir(path))   # type: ignore[arg-type]
        out.sort()
        rng_for(path).shuffle(out)
        return out

    class ScandirIter:
        def __init__(self, path: object) -> None:
            with real_scandir(path) as it:   # type: ignore[arg-type]
                self.entries = sorted(it, key=lambda e: e.name)
            rng_for(path).shuffle(self.entries)
            self.i = 0

        def __iter__(self) -> 'ScandirIter':
            return self

        def __next__(self) -> object:
            if self.i >= len(self.entries):
                raise StopIteration
            e = self.entries[self.i]
            self.i += 1
            return e

        def __enter__(self) -> 'ScandirIter':
            return self

        def __exit__(self, *a: object) -> None:
            pass

        def close(self) -> None:
            pass

    def scandir(path: object = '.') -> ScandirIter:
        return ScandirIter(path)
    os.listdir = listdir      # type: ignore[assignment]
    os.scandir = scandir      # type: ignore[assignment]


def main() -> int:
    repo = os.environ['VERIF_ND_REPO']
    sys.path.insert(0, repo)
    install_listing_permutation(int(os.environ.get('VERIF_ND_SEED', '0')))
    from mesonbuild import mesonmain
    return mesonmain.run(sys.argv[1:], os.path.join(repo, 'meson.py'))


if __name__ == '__main__':
    sys.exit(main())
