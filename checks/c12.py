"""C12 - `meson test` runs each test once, isolates serial tests, reports truthfully.

Deterministic simulation: the real TestHarness / SingleTestRunner / TestSubprocess
run on a virtual-time event loop against scripted child processes; the schedule
(durations, exit/EOF order, ties, signal reactions) is drawn from the PRNG.
"""
from __future__ import annotations

import copy
import json
import random
import typing as T

from sim.core import env as E
from sim.core import prng
from sim.core import runner as R
from sim.core.forkrun import ChildTimeout, ChildCrashed
from models import mtest_ref as MR
from models import tap_ref
from . import mtest_common as C

BAND = 0.06   # guard band around timeouts (simulated seconds)


class Check:
    id = 'C12'
    level = 'exploration'
    quick_n = 1500
    thorough_budget_s = 900
    scenario_wall_limit = 240.0
    shrink_runs = 240
    rule = ('scenario = generated project (1-14 tests over a top project and a subproject: parallel/serial, priority, '
            'timeout, should_fail, suites, exitcode/tap) + 1-3 simulated `meson test` invocations (jobs, repeat, maxfail, '
            'slice, suite/name selection, -t) + per-test process scripts (duration, exit status, output chunks, EOF-vs-exit '
            'order, reaction to SIGTERM/SIGKILL) + simulator knobs (tie order seed, batching, eager delivery). '
            'Non-trivial when >=2 children were alive at once, or a serial test had a neighbour to exclude, or a '
            'timeout/kill/maxfail/tie fault fired. Distinct by the hash of the ordered spawn/exit/signal events.')
    engine_desc = {
        'real': ['mesonbuild.mtest (TestHarness, SingleTestRunner, TestSubprocess, TestRun*, loggers, TAPParser)',
                 'meson setup --backend=none (interpreter test() -> TestSerialisation pickle)',
                 'asyncio StreamReader / SubprocessStreamProtocol / BaseSubprocessTransport / Process / Semaphore / wait_for'],
        'stub': ['event loop selector + clock (sim.aio.loop.SimLoop)', 'child processes and pipes (SimProc, SimPipeEnd)',
                 'os.killpg, time.time'],
    }
    assumptions = [
        'asyncio ready-callback FIFO order is as in CPython 3.12 and is not permuted',
        'a simulated child obeys POSIX: no output after exit unless a grandchild holds the pipe; SIGKILL is always fatal within 0.9 s',
        'finish times are kept >= 60 ms away from the effective timeout; inside that band nothing is demanded',
    ]

    def prepare(self, tier: str) -> None:
        from sim.core import mesonrun
        mesonrun.warm()

    # ------------------------------------------------------------------ generation
    def generate(self, rng: random.Random, tier: str, index: int) -> T.Dict[str, T.Any]:
        big = tier != 'quick' and rng.random() < 0.3
        ntests = rng.randint(1, 25 if big else 10)
        # swarm knobs
        sw = {
            'serial_p': rng.choice([0.0, 0.15, 0.4, 1.0]),
            'fail_p': rng.choice([0.0, 0.2, 0.5]),
            'timeout_p': rng.choice([0.0, 0.0, 0.2, 0.5]),
            'tap_p': rng.choice([0.0, 0.2]),
            'orphan_p': rng.choice([0.0, 0.0, 0.3]),
            'ignore_term_p': rng.choice([0.0, 0.5]),
            'tie_p': rng.choice([0.0, 0.3, 0.8]),
            'output_p': rng.choice([0.0, 0.5]),
            'longline_p': rng.choice([0.0, 0.0, 0.0, 0.15]),
            'sub_p': rng.choice([0.0, 0.3]),
            'zero_p': rng.choice([0.0, 0.0, 0.3]),
        }
        tick = rng.choice([0.05, 0.25, 0.5])   # common duration grid -> ties
        tests: T.List[T.Dict[str, T.Any]] = []
        for i in range(ntests):
            proj = C.SUB if rng.random() < sw['sub_p'] else C.TOP
            suites_pool = ['sa', 'sb', 'sc', 'sh'] if proj == C.TOP else ['xa', 'xb', 'sh']   # 'sh' exists in both projects
            suites = sorted(rng.sample(suites_pool, rng.choice([0, 0, 1, 1, 2])))
            timeout = rng.choice([30, 30, 1, 2, 3, 5, 0, -1]) if rng.random() < 0.6 else 30
            t: T.Dict[str, T.Any] = {
                'id': f't{i}', 'name': f'n{i}' if rng.random() < 0.8 else f'pre_{i}', 'proj': proj,
                'parallel': rng.random() >= sw['serial_p'],
                'priority': rng.choice([0, 0, 0, 5, -5, 100]),
                'timeout': timeout,
                'should_fail': rng.random() < 0.15,
                'suites': suites,
                # (gtest is classified like exitcode; the simulated process writes no result file)
                'protocol': 'tap' if rng.random() < sw['tap_p'] else ('gtest' if rng.random() < 0.12 else 'exitcode'),
                'env': ['K=V'] if rng.random() < 0.1 else [],
            }
            if t['protocol'] == 'tap':
                t['should_fail'] = False
            elif t['protocol'] == 'exitcode' and rng.random() < 0.1:
                t['expected_exitcode'] = rng.choice([3, 1, 2])      # documented for protocol exitcode only
            tests.append(t)
        setups: T.List[T.Dict[str, T.Any]] = []
        if rng.random() < 0.25:
            setups.append({'name': 'slow', 'tmult': rng.choice([None, 2, 3, 0]), 'exclude_suites': rng.choice([[], ['sa'], ['sb', f'{C.SUB}:xa'], [f'{C.TOP}:sh']]),
                           'env': rng.choice([[], ['SETUPVAR=1']])})
        nruns = rng.choice([1, 1, 2, 3])
        runs = []
        for r in range(nruns):
            runs.append(self.gen_run(rng, tests, sw, tick, setups))
        sc = {'kind': 'c12', 'tests': tests, 'runs': runs, 'setups': setups}
        # (extra stream, added late) a top-level project whose *name* is not what its tests' suites are prefixed with: meson
        # replaces ' ' and ':' in the prefix by '_'. --suite / --no-suite / exclude_suites and the printed names speak of the
        # prefix ('p_12'); positional test names, --exclude and --setup of the project name ('p 12').
        rx = prng.derive(prng.base_seed(), 'c12-extra', tier, index)
        if rx.random() < 0.15:
            top_id, top_raw = 'p_12', 'p 12'
            sc = json.loads(json.dumps(sc).replace(json.dumps(C.TOP), json.dumps(top_id)).replace(f'"{C.TOP}:', f'"{top_id}:'))
            sc['top_raw'] = top_raw
            for r_ in sc['runs']:
                r_['top_id'], r_['top_raw'] = top_id, top_raw
        return sc

    def gen_run(self, rng: random.Random, tests: T.List[T.Dict[str, T.Any]], sw: T.Dict[str, float], tick: float,
                setups: T.Sequence[T.Dict[str, T.Any]] = ()) -> T.Dict[str, T.Any]:
        run: T.Dict[str, T.Any] = {
            'j': rng.choice([1, 2, 2, 3, 4, 8, 30]),
            'repeat': rng.choice([1, 1, 1, 2, 3]),
            'maxfail': rng.choice([0, 0, 0, 1, 2, 3]),
            'tmult': rng.choice([None, None, None, 0.5, 2.0, 0.0, -1.0]),
            'nosplit': rng.random() < 0.2,
            'jvia': rng.choice(['arg', 'arg', 'arg', 'short', 'testthreads', 'numproc', 'both']),
            'verbose': rng.random() < 0.1,
            'errorlogs': rng.random() < 0.15,
        }
        if setups and rng.random() < 0.6:
            su = setups[0]
            run['setup'] = su['name']
            run['setup_exclude'] = list(su.get('exclude_suites') or [])
            if run['tmult'] is None and su.get('tmult') is not None:
                run['setup_tmult'] = su['tmult']
        # selection
        sel_mode = rng.choice(['all', 'all', 'suite', 'nosuite', 'names', 'exclude', 'suite+names'])
        if 'suite' in sel_mode and sel_mode != 'nosuite':
            # the shared suite 'sh' is only ever named in qualified form (the bare form is not
            # decided by the documentation for a subproject's suite of the same name)
            cands = ['sa', 'sb', f'{C.TOP}:sa', f'{C.TOP}:sc', f'{C.SUB}:xa', f'{C.SUB}:xb', ':sb', C.SUB, C.TOP,
                     f'{C.TOP}:sh', f'{C.SUB}:sh', ':sh']
            run['suites'] = rng.sample(cands, rng.choice([1, 1, 2]))
        if sel_mode == 'nosuite':
            run['nosuites'] = rng.sample(['sa', 'sb', f'{C.SUB}:xa', C.SUB, f'{C.TOP}:sb', f'{C.TOP}:sh', f'{C.SUB}:sh', ':sh'], rng.choice([1, 2]))
        if sel_mode == 'exclude':
            t = rng.choice(tests)
            run['exclude'] = [t['name'] if rng.random() < 0.5 else f"{t['proj']}:{t['name']}"]
        pre = MR.select(tests, run, C.TOP)
        if 'names' in sel_mode and pre:
            byid = {t['id']: t for t in tests}
            names = []
            for tid in rng.sample(pre, min(len(pre), rng.choice([1, 2, 3]))):
                t = byid[tid]
                names.append(rng.choice([t['name'], f"{t['proj']}:{t['name']}", f"{t['proj']}:", t['name'][:2] + '*']))
            run['names'] = sorted(set(names))
        sel = MR.select(tests, run, C.TOP)
        if sel and rng.random() < 0.2:
            n = rng.randint(1, len(sel))
            run['slice'] = [rng.randint(1, n), n]
        # scripts
        scripts: T.Dict[str, T.Any] = {}
        for t in tests:
            scripts[t['id']] = self.gen_script(rng, t, run, sw, tick)
        if rng.random() < 0.08 and len(tests) >= 2:
            self.kill_window(rng, tests, run, scripts)
        run['scripts'] = scripts
        run['sim'] = {
            'tie_seed': rng.randrange(1 << 30), 'tie_random': rng.random() < 0.8,
            'batch': rng.random() < 0.3, 'eager': rng.random() < 0.3, 'coalesce': rng.random() < 0.3,
            'rand_seed': rng.randrange(1 << 30),
        }
        if rng.random() < 0.2:
            run['sim']['tty'] = True
            run['sim']['cols'] = rng.choice([40, 80, 200])
        if rng.random() < 0.04:
            run['sim']['harness_signals'] = [[round(rng.uniform(0.0, 3.0), 3), 15]]
        if run.get('sim_extra_signal'):
            run['sim']['harness_signals'] = [run.pop('sim_extra_signal')]
        return run

    @staticmethod
    def tmult(run: T.Dict[str, T.Any]) -> T.Optional[float]:
        return run['tmult'] if run.get('tmult') is not None else run.get('setup_tmult')

    def kill_window(self, rng: random.Random, tests: T.List[T.Dict[str, T.Any]], run: T.Dict[str, T.Any],
                    scripts: T.Dict[str, T.Any]) -> None:
        """Bias: a failure reaches --maxfail (or a signal reaches the harness) while
        another test is inside its timeout kill sequence."""
        sel = [t for t in tests if t['id'] in MR.select(tests, run, C.TOP) and t['parallel']]
        cands = [t for t in sel if MR.effective_timeout(t['timeout'], self.tmult(run)) is not None]
        if not cands or len(sel) < 2 or run['j'] < 2 or run.get('slice'):
            return
        a = rng.choice(cands)
        b = rng.choice([t for t in sel if t is not a])
        teff = MR.effective_timeout(a['timeout'], self.tmult(run))
        bteff = MR.effective_timeout(b['timeout'], self.tmult(run))
        when = round(teff + rng.choice([0.0, 0.1, 0.3, 0.6, 1.2]), 3)
        if bteff is not None and when > bteff - BAND:
            return
        sa = scripts[a['id']]
        sa.update({'dur': round(teff + 30.0, 3), 'term': rng.choice(['ignore', 'die']), 'term_delay': 0.45,
                   'kill_delay': rng.choice([0.0, 0.3, 0.9])})
        sa.pop('eof', None)
        sb = scripts[b['id']]
        sb.update({'dur': when, 'code': 1})
        sb.pop('eof', None)
        if 'tap_text' in sb:
            sb['out'] = [[0.0, 1, sb['tap_text']]]
        else:
            sb['out'] = []
        b['should_fail'] = False
        if rng.random() < 0.7:
            run['maxfail'] = 1
        else:
            run.setdefault('sim_extra_signal', [when, 15])

    def gen_script(self, rng: random.Random, t: T.Dict[str, T.Any], run: T.Dict[str, T.Any],
                   sw: T.Dict[str, float], tick: float) -> T.Dict[str, T.Any]:
        teff = MR.effective_timeout(t['timeout'], self.tmult(run))
        want_timeout = teff is not None and rng.random() < sw['timeout_p']
        if rng.random() < sw['zero_p']:
            dur = 0.0
        elif rng.random() < sw['tie_p']:
            dur = round(tick * rng.randint(1, 8), 3)
        else:
            dur = round(rng.uniform(0.01, 4.0), 3)
        sc: T.Dict[str, T.Any] = {}
        if want_timeout:
            dur = round(teff + rng.choice([0.1, 0.5, 3.0, 50.0]), 3)
        elif teff is not None and dur > teff - BAND:
            dur = round(max(0.0, min(dur, teff - BAND - rng.uniform(0.0, 0.3))), 3)
            if dur > teff - BAND:
                dur = 0.0
        if rng.random() < sw['fail_p']:
            code = rng.choice([1, 1, 2, 77, 99, 127, 255, -11, -6, -15])
        else:
            code = 0
        if t.get('expected_exitcode') and rng.random() < 0.6:
            code = rng.choice([t['expected_exitcode'], t['expected_exitcode'], 0, 0, 77])
        sc['dur'] = dur
        sc['code'] = code
        out: T.List[T.List[T.Any]] = []
        if t['protocol'] == 'tap':
            n = rng.randint(0, 4)
            lines = [f'1..{n}\n']
            for k in range(1, n + 1):
                kind = rng.choice(['ok', 'ok', 'ok', 'not ok', 'skip', 'todo'])
                if kind == 'ok':
                    lines.append(f'ok {k} - s{k}\n')
                elif kind == 'not ok':
                    lines.append(f'not ok {k} - s{k}\n')
                elif kind == 'skip':
                    lines.append(f'ok {k} # SKIP nope\n')
                else:
                    lines.append(f'not ok {k} # TODO later\n')
            if n > 0 and rng.random() < 0.15:
                lines = [f'1..{n}\n'] + [f'ok {k} # SKIP not here\n' for k in range(1, n + 1)]      # every subtest skipped
            if rng.random() < 0.1:
                lines.pop()     # plan/count mismatch (or no plan at all when n == 0 -> empty)
            text = ''.join(lines)
            if dur > 0:
                tt = round(rng.uniform(0, dur), 3)
                out.append([min(tt, dur), 1, text])
            else:
                out.append([0.0, 1, text])
            sc['tap_text'] = text
        elif rng.random() < sw['output_p']:
            for _ in range(rng.randint(1, 4)):
                tt = round(rng.uniform(0, dur), 3) if dur > 0 else 0.0
                fd = rng.choice([1, 1, 2])
                if rng.random() < sw['longline_p']:
                    data = 'x' * rng.choice([70000, 140000, 300000]) + rng.choice(['', '\n'])
                else:
                    data = rng.choice(['hello\n', 'partial', 'a\nb\nc\n', '\xff\xfe bad utf8 \n', 'café\r\nwin\r\n', '\n'])
                out.append([tt, fd, data])
            out.sort(key=lambda o: o[0])
        sc['out'] = out
        # EOF vs exit order
        if rng.random() < sw['orphan_p']:
            mode = rng.choice(['early', 'late', 'late-both'])
            if mode == 'early' and dur > 0.02 and not out:
                sc['eof'] = {'1': round(dur * rng.uniform(0.1, 0.9), 3)}
            elif mode.startswith('late'):
                late = round(dur + rng.choice([0.01, 0.2, 1.0, 20.0]), 3)
                if teff is not None and not want_timeout and late > teff - BAND:
                    late = None
                if late is not None:
                    sc['eof'] = {'1': late}
                    if mode == 'late-both':
                        sc['eof']['2'] = late
        # reaction to signals
        if rng.random() < sw['ignore_term_p']:
            sc['term'] = 'ignore'
        elif rng.random() < 0.3:
            sc['term'] = 'exit'
            sc['term_code'] = rng.choice([0, 1, 143])
            sc['term_delay'] = rng.choice([0.0, 0.1, 0.4])
        else:
            sc['term'] = 'die'
            sc['term_delay'] = rng.choice([0.0, 0.0, 0.05, 0.3, 0.45])
        sc['kill_delay'] = rng.choice([0.0, 0.0, 0.1, 0.6, 0.9])
        return sc

    # ------------------------------------------------------------------ execution
    def run(self, sc: T.Dict[str, T.Any]) -> T.Dict[str, T.Any]:
        root = E.mkscratch('c12')
        try:
            return self._run(sc, root)
        except ChildTimeout as e:
            return R.violation('hang-wall', f'child process exceeded the wall limit: {e}'[:1500])
        except ChildCrashed as e:
            return R.harness_error(f'child crashed: {e}')
        finally:
            E.rmscratch(root)

    def _run(self, sc: T.Dict[str, T.Any], root: str) -> T.Dict[str, T.Any]:
        tests = sc['tests']
        byid = {t['id']: t for t in tests}
        sd, bd = C.write_project(root, tests, sc.get('setups') or [], top_raw=sc.get('top_raw'))
        r = C.setup(root, sd, bd)
        if not r['ok'] or r['value'] != 0:
            return R.harness_error('setup of generated project failed: ' + (r.get('exc') or r['out'])[-2000:])
        agg = {'faults': {}, 'probes': {}, 'sim_time': 0.0, 'steps': 0, 'interleavings': [], 'nontrivial': False}
        if sc.get('top_raw'):
            agg['probes']['project-name-needs-sanitising'] = 1
        keyparts: T.List[str] = []
        summaries = []
        for ri, run in enumerate(sc['runs']):
            v = self.one_run(root, bd, tests, byid, run, ri, agg)
            if v is not None:
                v.update({k: agg[k] for k in ('faults', 'probes', 'sim_time', 'steps')})
                v['run_index'] = ri
                return v
            keyparts.append(agg['interleavings'][-1] if agg['interleavings'] else '')
            summaries.append(agg.get('last_summary'))
        return R.ok(faults=agg['faults'], probes=agg['probes'], sim_time=agg['sim_time'], steps=agg['steps'],
                    interleavings=agg['interleavings'], nontrivial=agg['nontrivial'],
                    distinct_key=prng.short(keyparts), summary=summaries, trace_digest=prng.digest(agg.get('digests', [])))

    def one_run(self, root: str, bd: str, tests: T.List[T.Dict[str, T.Any]], byid: T.Dict[str, T.Dict[str, T.Any]],
                run: T.Dict[str, T.Any], ri: int, agg: T.Dict[str, T.Any]) -> T.Optional[T.Dict[str, T.Any]]:
        def add(d: T.Dict[str, int], k: str, n: int = 1) -> None:
            d[k] = d.get(k, 0) + n
        faults, probes = agg['faults'], agg['probes']
        # ---- selected set, from the real --list, cross-checked against the documented rules
        sel_args = C.selection_args(run)
        lr = C.list_tests(root, bd, sel_args, f'{ri}')
        if not lr['ok']:
            if lr['exc_in_sut']:
                return R.violation('sut-exception', 'meson test --list raised: ' + lr['exc'][-1500:], 'sut-exception:list')
            return R.harness_error('list failed: ' + str(lr['exc']))
        pretty = {MR.pretty_name(t): t['id'] for t in tests}
        listed = [l for l in lr['out'].splitlines() if l.strip()]
        listed_ids: T.List[str] = []
        model_sel = MR.select(tests, run, run.get('top_id', C.TOP))
        if not (len(listed) == 1 and listed[0].startswith('No ')):
            for l in listed:
                if l not in pretty:
                    if l.startswith('WARNING') or 'test name is redundant' in l:
                        continue
                    return R.harness_error(f'unparsable --list line {l!r}')
                listed_ids.append(pretty[l])
        if sorted(listed_ids) != sorted(model_sel):
            return R.violation('selection', f'--list {sel_args} selected {sorted(listed_ids)}, documented rules select {sorted(model_sel)}',
                               'selection')
        selected = listed_ids
        if run.get('slice'):
            i, n = run['slice']
            if n > len(selected):
                return None   # meson rejects this; not generated on purpose
            parts: T.List[T.List[str]] = []
            for k in range(1, n + 1):
                pr = C.list_tests(root, bd, ['--slice', f'{k}/{n}'] + sel_args, f'{ri}-s{k}')
                if not pr['ok']:
                    if pr['exc_in_sut']:
                        return R.violation('sut-exception', 'meson test --list --slice raised: ' + pr['exc'][-1500:], 'sut-exception:list')
                    return R.harness_error('list failed: ' + str(pr['exc']))
                ids = []
                for l in pr['out'].splitlines():
                    if l in pretty:
                        ids.append(pretty[l])
                parts.append(ids)
            flat = [x for p in parts for x in p]
            if sorted(flat) != sorted(selected) or len(flat) != len(set(flat)):
                return R.violation('slice-partition', f'slices {parts} do not partition {selected}', 'slice-partition')
            probes['slice'] = probes.get('slice', 0) + 1
            selected = parts[i - 1]
        if not selected:
            return None
        # ---- the simulated run
        argv = C.run_args(bd, run)
        logbase = 'testlog' + (f"-{run.get('top_id', C.TOP)}_{run['setup']}" if run.get('setup') else '')   # meson names the log files after the setup
        rr = C.sim_run(root, bd, argv, run['sim'], run['scripts'], f'{ri}', logbase=logbase, extra_env=C.jobs_env(run))
        if not rr['ok']:
            if rr['exc_in_sut']:
                return R.violation('sut-exception', 'meson test raised: ' + rr['exc'][-2500:], 'sut-exception:' + str(rr['exc_type']))
            return R.harness_error('simulated run failed in harness code: ' + str(rr['exc'])[-3000:])
        v = rr['value']
        out_text = rr['out']
        for k, n in v['faults'].items():
            add(faults, k, n)
        for k, n in v['probes'].items():
            add(probes, k, n)
        agg['sim_time'] += v['end_time']
        agg['steps'] += v['steps']
        trace = {'events': v['events'][:400], 'argv': argv}
        if v['outcome'] == 'hang':
            return R.violation('hang', 'event loop deadlocked: ' + v['detail'], 'hang', trace=trace)
        if v['outcome'] == 'livelock':
            return R.violation('livelock', v['detail'], 'livelock', trace=trace)
        if v['outcome'] == 'sysexit':
            return R.violation('sut-exit', f'meson test called sys.exit({v["rc"]!r}); output: {out_text[-800:]}', 'sut-exit', trace=trace)
        if 'Traceback (most recent call last)' in out_text:
            return R.violation('sut-exception', 'traceback printed by meson test: ' + out_text[-2000:], 'sut-exception:printed', trace=trace)
        pv = C.proc_views(v['events'])
        j = run['j']
        repeat = run.get('repeat', 1)
        hsig = bool(run['sim'].get('harness_signals'))
        # ---- invariants over the event sequence
        live: T.Dict[int, C.ProcView] = {}
        seen: T.Set[T.Tuple[str, int]] = set()
        max_live = 0
        serial_had_neighbour = False
        order: T.List[str] = []
        for e in v['events']:
            if e['kind'] == 'spawn':
                p = pv[e['pid']]
                key = (p.tid, p.it)
                if p.tid not in byid:
                    return R.violation('spawn-unknown', f'spawned unknown test {p.tid}', 'spawn-unknown', trace=trace)
                if key in seen:
                    return R.violation('spawned-twice', f'test {p.tid} iteration {p.it} was started twice', 'spawned-twice', trace=trace)
                seen.add(key)
                if p.tid not in selected:
                    return R.violation('ran-unselected', f'test {p.tid} was started but is not in the selected set {selected}', 'ran-unselected', trace=trace)
                me_serial = not byid[p.tid]['parallel']
                if live and (me_serial or any(not byid[o.tid]['parallel'] for o in live.values())):
                    others = [o.tid for o in live.values()]
                    return R.violation('serial-overlap', f'test {p.tid} (parallel={not me_serial}) started at t={e["t"]} seq={e["seq"]} while {others} still running '
                                       f'(non-parallel among them: {[o for o in others if not byid[o]["parallel"]]})', 'serial-overlap', trace=trace)
                if me_serial and len(selected) * repeat > 1:
                    serial_had_neighbour = True
                live[p.pid] = p
                max_live = max(max_live, len(live))
                if len(live) > j:
                    return R.violation('too-many-jobs', f'{len(live)} tests running with --num-processes {j} at t={e["t"]}', 'too-many-jobs', trace=trace)
                order.append(f'S{p.tid}.{p.it}')
            elif e['kind'] == 'exit':
                live.pop(e['pid'], None)
                order.append(f'E{pv[e["pid"]].tid}.{pv[e["pid"]].it}')
            elif e['kind'] == 'signal':
                order.append(f'K{pv[e["pid"]].tid}.{e["sig"]}')
        il = prng.short(order)
        agg['interleavings'].append(il)
        agg.setdefault('digests', []).append(prng.digest([v['events'], v['rc'], v['end_time'], v['steps'],
                                                          [(e.get('name'), e.get('result'), e.get('duration'), e.get('stdout')) for e in v['testlog']]]))
        if max_live >= 2:
            add(probes, 'overlap>=2')
        if serial_had_neighbour:
            add(probes, 'serial-with-neighbour')
        # ---- per run classification
        tl = v['testlog']
        log_by_key: T.Dict[T.Tuple[str, int], T.Dict[str, T.Any]] = {}
        for ent in tl:
            tid = ent['command'][-1] if ent.get('command') else None
            it = int((ent.get('env') or {}).get('MESON_TEST_ITERATION', '1'))
            if (tid, it) in log_by_key:
                return R.violation('logged-twice', f'testlog.json has two entries for {tid} iteration {it}', 'logged-twice', trace=trace)
            log_by_key[(tid, it)] = ent
        labels: T.List[str] = []
        nbad = 0
        any_interrupt = False
        aborted_at_spawn: T.Set[T.Tuple[str, int]] = set()
        # the instant at which the harness may have begun cancelling: the earliest bad result when --maxfail / --repeat
        # can cut the run short, or the first signal sent to the harness itself
        t_cut: T.Optional[float] = None
        if run.get('maxfail', 0) > 0 or repeat > 1:
            bad_ends = sorted(e['starttime'] + e['duration'] - 1_000_000.0 for e in tl if e['result'] in MR.BAD)
            need = run.get('maxfail', 0) if run.get('maxfail', 0) > 0 else 1
            if len(bad_ends) >= need:
                t_cut = bad_ends[need - 1]
        for e in v['events']:
            if e['kind'] == 'harness-signal':
                t_cut = e['t'] if t_cut is None else min(t_cut, e['t'])
        for p in pv.values():
            t = byid[p.tid]
            s = run['scripts'][p.tid]
            ent = log_by_key.get((p.tid, p.it))
            if ent is None:
                # A test whose process was being created at the very instant the harness started to cancel
                # the run (--maxfail reached, signal) is aborted by asyncio before meson ever sees it start;
                # nothing is demanded about it.  Anything spawned at an earlier instant must be reported.
                if t_cut is not None and p.spawn_t >= t_cut - 1e-9:
                    add(faults, 'spawn-aborted-by-cancellation')
                    aborted_at_spawn.add((p.tid, p.it))
                    continue
                return R.violation('not-logged', f'test {p.tid} iteration {p.it} ran but has no testlog.json entry', 'not-logged', trace=trace)
            got = ent['result']
            labels.append(got)
            teff = MR.effective_timeout(t['timeout'], self.tmult(run))
            if p.exit_t is None:
                return R.violation('result-before-death', f'test {p.tid} was reported {got} but its process never exited', 'result-before-death', trace=trace)
            log_end = ent['starttime'] + ent['duration'] - 1_000_000.0
            if p.exit_t > log_end + 1e-6:
                return R.violation('result-before-death', f'test {p.tid} reported {got} at t={log_end:.3f} but its process lived until t={p.exit_t:.3f}',
                                   'result-before-death', trace=trace)
            terms = [sg for sg in p.signals]
            exp: T.Optional[str]
            if terms:
                t_first = terms[0][0] - p.spawn_t
                if teff is not None and t_first >= teff - 1e-6:
                    exp = 'TIMEOUT'
                    add(faults, 'timeout-fired')
                    if t_first > teff + 0.05:
                        return R.violation('late-timeout', f'test {p.tid}: limit {teff}s but first signal only after {t_first:.3f}s', 'late-timeout', trace=trace)
                    if any(sg[1] == 9 for sg in terms):
                        add(faults, 'sigkill-escalation')
                else:
                    exp = 'INTERRUPT'
                    any_interrupt = True
                    add(faults, 'interrupted-by-harness')
            else:
                natural_end = max([s['dur']] + [float(x) for x in (s.get('eof') or {}).values()])
                if teff is not None and natural_end > teff - BAND / 2:
                    # should have timed out (or inside the band)
                    if natural_end > teff + BAND / 2:
                        return R.violation('missed-timeout', f'test {p.tid} ran {natural_end}s with limit {teff}s and was never signalled', 'missed-timeout', trace=trace)
                    exp = None
                elif t['protocol'] == 'tap':
                    exp = 'TAP'
                else:
                    exp = MR.classify_exitcode(s['code'], t['should_fail'], t.get('expected_exitcode') or 0)
            if exp == 'TAP':
                lines = s['tap_text'].splitlines(True)
                ref = tap_ref.interpret(lines)
                vb = tap_ref.verdict_bad(ref, s['code'] != 0)
                if vb is not None and vb != (got in MR.BAD):
                    return R.violation('misclassified', f'TAP test {p.tid} (exit {s["code"]}, output {s["tap_text"]!r}) reported {got}', 'misclassified:tap', trace=trace)
                if vb is False and all(l.kind != 'test?' for l in ref):
                    # a good TAP test is SKIP when every subtest was skipped (Unit-tests.md: `1..0 # SKIP`, `ok N # SKIP`), else OK
                    subs = [l.test[2] for l in ref if l.kind == 'test' and l.test is not None]
                    if subs and all(x == 'SKIP' for x in subs) and got != 'SKIP':
                        return R.violation('misclassified', f'TAP test {p.tid} whose subtests were all skipped ({s["tap_text"]!r}) reported {got}, not SKIP', 'misclassified:tap-skip', trace=trace)
                    if any(x != 'SKIP' for x in subs) and got == 'SKIP':
                        return R.violation('misclassified', f'TAP test {p.tid} with subtests that ran ({s["tap_text"]!r}) reported SKIP', 'misclassified:tap-skip', trace=trace)
            elif exp == 'TIMEOUT' and got == 'INTERRUPT' and (hsig or run.get('maxfail', 0) > 0) and terms[0][0] - p.spawn_t <= teff + 1e-6:
                # the harness's own cancellation and the timer coincide: either may win the tie
                any_interrupt = True
            elif exp is not None and got != exp:
                return R.violation('misclassified', f'test {p.tid} (exit {s["code"]}, should_fail={t["should_fail"]}, limit {teff}, signals {terms}) '
                                   f'reported {got}, documented rule gives {exp}', f'misclassified:{exp}->{got}', trace=trace)
            if got in MR.BAD:
                nbad += 1
            if ent.get('is_fail') != (got in MR.BAD):
                return R.violation('log-inconsistent', f'testlog is_fail={ent.get("is_fail")} for result {got}', 'log-inconsistent', trace=trace)
        if len(tl) != len(pv) - len(aborted_at_spawn):
            extra = [k for k in log_by_key if k not in {(p.tid, p.it) for p in pv.values()}]
            return R.violation('logged-not-run', f'testlog.json has entries for tests that never ran: {extra}', 'logged-not-run', trace=trace)
        # ---- exactly once / at most once
        maxfail = run.get('maxfail', 0)
        cut_allowed = (maxfail > 0 and nbad >= maxfail) or (repeat > 1 and nbad >= 1) or hsig
        expected_keys = {(tid, it) for tid in selected for it in range(1, repeat + 1)}
        missing = expected_keys - seen
        if missing and not cut_allowed:
            return R.violation('not-run', f'selected tests never started: {sorted(missing)} (maxfail={maxfail}, repeat={repeat}, bad results={nbad})', 'not-run', trace=trace)
        if missing:
            add(faults, 'run-cut-short')
        if any_interrupt and not cut_allowed:
            return R.violation('spurious-interrupt', 'a test was interrupted by the harness although the run was not being cut short', 'spurious-interrupt', trace=trace)
        # ---- tallies: console lines, summary, testlog, exit status
        cons, summ = MR.parse_console(out_text)
        want = MR.tally(labels)
        for k, n in want.items():
            if summ.get(k, 0) != n and not (k in ('Ok', 'Fail') and k not in summ):
                return R.violation('tally', f'summary prints {summ} but the classified runs tally to {want}', 'tally', trace=trace)
        if 'Ok' not in summ:
            return R.violation('tally', f'no summary printed; output tail: {out_text[-600:]}', 'tally:none', trace=trace)
        if not run.get('quiet'):
            cl = MR.tally([c[1] for c in cons])
            if cl != want:
                return R.violation('tally', f'console result lines tally {cl}, testlog tallies {want}', 'tally:console', trace=trace)
        exit_bad = any(l in ('FAIL', 'ERROR', 'TIMEOUT', 'UNEXPECTEDPASS', 'INTERRUPT') for l in labels)
        if (v['rc'] != 0) != exit_bad:
            return R.violation('exit-status', f'exit status {v["rc"]} with results {sorted(labels)}', 'exit-status', trace=trace)
        # ---- bounded liveness: no idle waiting while work remains
        idle = C.idle_time(pv, v['end_time'])
        if idle > 0.05:
            return R.violation('idle-wait', f'harness idled {idle:.3f}s of {v["end_time"]:.3f}s simulated with no test running', 'idle-wait', trace=trace)
        if max_live >= 2 or serial_had_neighbour or faults:
            agg['nontrivial'] = True
        agg['last_summary'] = {'argv': argv[2:], 'order': ' '.join(order[:40]), 'results': sorted(labels), 'sim_s': v['end_time']}
        return None

    # ------------------------------------------------------------------ shrinking
    def shrink(self, sc: T.Dict[str, T.Any]) -> T.Iterator[T.Dict[str, T.Any]]:
        # fewer runs
        if len(sc['runs']) > 1:
            for i in range(len(sc['runs'])):
                c = copy.deepcopy(sc)
                c['runs'] = [c['runs'][i]]
                yield c
        # fewer tests
        for sub in R.drop_each(sc['tests'], 1):
            c = copy.deepcopy(sc)
            c['tests'] = copy.deepcopy(sub)
            keep = {t['id'] for t in sub}
            ok_ = True
            for r in c['runs']:
                r['scripts'] = {k: v for k, v in r['scripts'].items() if k in keep}
                if r.get('slice'):
                    r.pop('slice')
                if r.get('names') or r.get('exclude'):
                    r.pop('names', None)
                    r.pop('exclude', None)
            if ok_:
                yield c
        # simpler run options
        for ri, r in enumerate(sc['runs']):
            if r.get('setup'):
                c = copy.deepcopy(sc)
                for k_ in ('setup', 'setup_exclude', 'setup_tmult'):
                    c['runs'][ri].pop(k_, None)
                yield c
            for key, simple in (('slice', None), ('names', None), ('suites', None), ('nosuites', None), ('exclude', None),
                                ('repeat', 1), ('maxfail', 0), ('tmult', None), ('nosplit', False), ('verbose', False), ('errorlogs', False)):
                if r.get(key) not in (None, simple, [], False):
                    c = copy.deepcopy(sc)
                    if simple is None:
                        c['runs'][ri].pop(key, None)
                    else:
                        c['runs'][ri][key] = simple
                    yield c
            for key in ('batch', 'eager', 'coalesce', 'tie_random', 'tty'):
                if r['sim'].get(key):
                    c = copy.deepcopy(sc)
                    c['runs'][ri]['sim'][key] = False
                    yield c
            if r['sim'].get('harness_signals'):
                c = copy.deepcopy(sc)
                c['runs'][ri]['sim'].pop('harness_signals')
                yield c
            if r['j'] > 2:
                c = copy.deepcopy(sc)
                c['runs'][ri]['j'] = 2
                yield c
            # simpler scripts
            for tid, s in r['scripts'].items():
                if s.get('out') and 'tap_text' not in s:
                    c = copy.deepcopy(sc)
                    c['runs'][ri]['scripts'][tid]['out'] = []
                    yield c
                if s.get('eof'):
                    c = copy.deepcopy(sc)
                    c['runs'][ri]['scripts'][tid].pop('eof')
                    yield c
                if s.get('term') != 'die' or s.get('term_delay') or s.get('kill_delay'):
                    c = copy.deepcopy(sc)
                    c['runs'][ri]['scripts'][tid].update({'term': 'die', 'term_delay': 0.0, 'kill_delay': 0.0})
                    yield c
        # plainer tests
        for ti, t in enumerate(sc['tests']):
            for key, simple in (('suites', []), ('priority', 0), ('env', []), ('should_fail', False), ('timeout', 30), ('parallel', True)):
                if t.get(key) != simple:
                    c = copy.deepcopy(sc)
                    c['tests'][ti][key] = simple
                    if key in ('suites',):
                        for r in c['runs']:
                            r.pop('suites', None)
                            r.pop('nosuites', None)
                    yield c


CHECK = Check()
