"""Completeness self-test of the LD_PRELOAD interposer: the same meson commands are run once under the
shim (tracing) and once under `strace -f`; the multiset of file-system mutations of the main process
beneath the scratch root must be the same."""
from __future__ import annotations

import collections
import os
import re
import shutil
import subprocess
import sys
import typing as T

from sim.core import env as E
from checks import c09
from checks import optproj as P

SYSCALLS = ('open,openat,creat,write,pwrite64,writev,rename,renameat,renameat2,unlink,unlinkat,mkdir,mkdirat,rmdir,fsync,fdatasync,'
            'ftruncate,truncate,link,linkat,symlink,symlinkat,chmod,fchmod,fchmodat,utimensat,sendfile,copy_file_range')
CLASS = {'open': 'open', 'openat': 'open', 'creat': 'open', 'write': 'write', 'pwrite64': 'write', 'writev': 'write', 'rename': 'rename', 'renameat': 'rename',
         'renameat2': 'rename', 'unlink': 'unlink', 'unlinkat': 'unlink', 'mkdir': 'mkdir', 'mkdirat': 'mkdir', 'rmdir': 'rmdir', 'fsync': 'fsync',
         'fdatasync': 'fsync', 'ftruncate': 'truncate', 'truncate': 'truncate', 'link': 'link', 'linkat': 'link', 'symlink': 'symlink', 'symlinkat': 'symlink',
         'chmod': 'chmod', 'fchmod': 'chmod', 'fchmodat': 'chmod', 'utimensat': 'utime', 'sendfile': 'write', 'copy_file_range': 'write'}
SHIM_CLASS = {'open-trunc': 'open', 'open-create': 'open', 'open-write': 'open', 'write': 'write', 'pwrite': 'write', 'writev': 'write', 'sendfile': 'write',
              'copy_file_range': 'write', 'rename': 'rename', 'unlink': 'unlink', 'remove': 'unlink', 'rmdir': 'rmdir', 'mkdir': 'mkdir', 'fsync': 'fsync',
              'fdatasync': 'fsync', 'ftruncate': 'truncate', 'truncate': 'truncate', 'link': 'link', 'symlink': 'symlink', 'chmod': 'chmod', 'utime': 'utime'}


def norm(p: str) -> str:
    return re.sub(r'tmp[a-z0-9_]{6,}', 'tmpXXXX', p)


def run_pair(root: str, argv: T.List[str], tag: str) -> T.Tuple[collections.Counter, collections.Counter]:
    chk = c09.CHECK
    pre = os.path.join(root, 'pre_' + tag)
    bd = os.path.join(root, 'bd')
    if os.path.isdir(bd):
        shutil.copytree(bd, pre, symlinks=True)
    tr = os.path.join(root, f'trace_{tag}.txt')
    cp = chk.exec_cmd(root, argv, None, False, tr)
    assert cp.returncode == 0, cp.stdout + cp.stderr
    a: collections.Counter = collections.Counter()
    for p in chk.read_trace(tr, root):
        if 'trace_' in p['path']:
            continue
        a[(SHIM_CLASS[p['op']], norm(p['path']))] += 1
    # same command again under strace, from the same pre-state
    shutil.rmtree(bd, ignore_errors=True)
    if os.path.isdir(pre):
        shutil.copytree(pre, bd, symlinks=True)
    so = os.path.join(root, f'strace_{tag}.txt')
    env = c09.child_env()
    cp = subprocess.run(['strace', '-f', '-y', '-o', so, '-e', 'trace=' + SYSCALLS, E.PYTHON, E.meson_py()] + argv, env=env, capture_output=True, text=True, cwd=root)
    assert cp.returncode == 0, cp.stdout + cp.stderr
    b: collections.Counter = collections.Counter()
    mainpid = None
    for line in open(so, errors='replace'):
        m = re.match(r'^(\d+)\s+(\w+)\((.*)$', line)
        if not m:
            continue
        pid, sc, rest = m.group(1), m.group(2), m.group(3)
        if mainpid is None:
            mainpid = pid
        if pid != mainpid or sc not in CLASS or '<unfinished' in line:
            continue
        cls = CLASS[sc]
        if sc == 'unlinkat' and 'AT_REMOVEDIR' in rest:
            cls = 'rmdir'
        paths = re.findall(r'"((?:[^"\\]|\\.)*)"', rest)
        fdpaths = re.findall(r'\d+<([^>]*)>', rest)
        target = None
        if cls == 'open':
            if not re.search(r'O_WRONLY|O_RDWR|O_CREAT|O_TRUNC|O_APPEND', rest):
                continue
            target = paths[0] if paths else None
            if target and not target.startswith('/'):
                base = fdpaths[0] if (fdpaths and sc == 'openat' and 'AT_FDCWD' not in rest.split(',')[0]) else root
                target = os.path.join(base, target)
        elif cls in ('write', 'fsync', 'truncate') and sc not in ('truncate',):
            target = fdpaths[0] if fdpaths else None
            if sc in ('sendfile', 'copy_file_range') and fdpaths:
                target = fdpaths[0] if sc == 'sendfile' else (fdpaths[1] if len(fdpaths) > 1 else None)
        elif cls == 'chmod' and sc == 'fchmod':
            target = fdpaths[0] if fdpaths else None
        elif cls == 'rename':
            target = paths[0] if paths else None
        elif cls in ('symlink', 'link'):
            target = paths[1] if len(paths) > 1 else None
        else:
            target = paths[0] if paths else None
            if target and not target.startswith('/'):
                dirfd = fdpaths[0] if fdpaths and 'AT_FDCWD' not in rest.split(',')[0] else root
                target = os.path.join(dirfd, target)
        if not target or target.startswith(('pipe:', 'socket:', 'anon_inode:')):
            continue
        target = os.path.normpath(target if target.startswith('/') else os.path.join(root, target))
        if not (target == root or target.startswith(root + '/')):
            continue
        rel = os.path.relpath(target, root)
        if 'trace_' in rel or 'strace_' in rel:
            continue
        b[(cls, norm(rel))] += 1
    return a, b


def main(a: T.Any) -> int:
    chk = c09.CHECK
    chk.prepare('quick')
    root = os.path.realpath(E.mkscratch('shimtest'))
    bad = 0
    try:
        spec = {'top': [dict(o) for o in P.TOP_POOL], 'sub': [dict(o) for o in P.SUB_POOL], 'backend': 'none', 'top_defaults': [], 'sub_defaults': []}
        sd = os.path.join(root, 'src')
        bd = os.path.join(root, 'bd')
        P.render(spec, sd)
        for tag, argv in (('setup', ['setup', '--backend=none', bd, sd, '-Ds=v1']), ('configure', ['configure', bd, '-Dc=two', '-Dsub:warning_level=3']),
                          ('reconfigure', ['setup', '--reconfigure', bd, sd, '-Db=false']), ('wipe', ['setup', '--wipe', bd, sd])):
            x, y = run_pair(root, argv, tag)
            # write() chunking can differ between runs (buffer flush points of the log file); compare presence for writes, counts for the rest
            def key(c: collections.Counter) -> T.Dict[T.Tuple[str, str], int]:
                return {k: (1 if k[0] in ('write',) else v) for k, v in c.items() if 'meson-logs' not in k[1]}
            kx, ky = key(x), key(y)
            only_shim = {k: v for k, v in kx.items() if ky.get(k) != v}
            only_strace = {k: v for k, v in ky.items() if kx.get(k) != v}
            print(f'{tag:<12} shim sees {sum(x.values())} mutations / {len(kx)} distinct; strace {sum(y.values())} / {len(ky)}; '
                  f'mismatches: {len(only_shim) + len(only_strace)}')
            if only_shim or only_strace:
                bad += 1
                print('   shim but not strace (or different count):', list(only_shim.items())[:8])
                print('   strace but not shim (or different count):', list(only_strace.items())[:8])
    finally:
        E.rmscratch(root)
    return 1 if bad else 0
