"""Seeded search driver shared by all checks.

A *check* object provides:
    id, level, engine_desc (real vs stub components), rule (what counts as
    distinct and non-trivial), quick_n, thorough_budget_s
    generate(rng, tier, index) -> scenario (JSON-able dict)
    run(scenario)              -> outcome dict (see `ok`/`violation` helpers)
    shrink(scenario)           -> iterator of smaller candidate scenarios

The driver derives one PRNG per scenario index from VERIF_SEED, executes the
scenarios in a fork-based process pool, minimises any violation with a bounded
delta-debugging loop, confirms the minimised replay in a fresh interpreter and
writes the evidence file.
"""
from __future__ import annotations

import concurrent.futures as cf
import faulthandler
import json
import multiprocessing as mp
import os
import subprocess
import sys
import time
import traceback
import typing as T

from . import env as E
from . import prng
from . import findings as F


def ok(**kw: T.Any) -> T.Dict[str, T.Any]:
    d = {'status': 'ok'}
    d.update(kw)
    return d


def violation(vclass: str, detail: str, signature: T.Optional[str] = None, **kw: T.Any) -> T.Dict[str, T.Any]:
    d = {'status': 'violation', 'vclass': vclass, 'detail': detail, 'signature': signature or vclass}
    d.update(kw)
    return d


def harness_error(detail: str, **kw: T.Any) -> T.Dict[str, T.Any]:
    d = {'status': 'harness_error', 'detail': detail}
    d.update(kw)
    return d


_CHECK = None  # set in workers through fork inheritance


def _worker_init() -> None:
    faulthandler.enable()


def _run_one(scenario: T.Dict[str, T.Any], wall_limit: float) -> T.Dict[str, T.Any]:
    chk = _CHECK
    faulthandler.dump_traceback_later(wall_limit, exit=True)
    t0 = time.monotonic()
    try:
        out = chk.run(scenario)
    except Exception as e:  # harness bug
        out = harness_error('exception in harness: ' + ''.join(traceback.format_exception(type(e), e, e.__traceback__))[-4000:])
    finally:
        faulthandler.cancel_dump_traceback_later()
    out['wall'] = time.monotonic() - t0
    return out


def _gen_and_run(args: T.Tuple[int, str, int, float]) -> T.Tuple[int, T.Dict[str, T.Any], T.Dict[str, T.Any]]:
    seed, tier, index, wall_limit = args
    chk = _CHECK
    rng = prng.derive(seed, chk.id, tier, index)
    try:
        sc = chk.generate(rng, tier, index)
    except Exception as e:
        return index, {}, harness_error('exception in generator: ' + ''.join(traceback.format_exception(type(e), e, e.__traceback__))[-4000:])
    return index, sc, _run_one(sc, wall_limit)


def _run_sc_indexed(args: T.Tuple[int, T.Dict[str, T.Any], float]) -> T.Tuple[int, T.Dict[str, T.Any], T.Dict[str, T.Any]]:
    return args[0], args[1], _run_one(args[1], args[2])


def _run_sc(args: T.Tuple[T.Dict[str, T.Any], float]) -> T.Dict[str, T.Any]:
    return _run_one(args[0], args[1])


class Driver:
    def __init__(self, check: T.Any, tier: str, seed: int, jobs: T.Optional[int] = None) -> None:
        global _CHECK
        self.check = check
        self.tier = tier
        self.seed = seed
        self.jobs = jobs or int(os.environ.get('VERIF_JOBS', '0')) or min(16, os.cpu_count() or 4)
        _CHECK = check
        self.wall_limit = float(getattr(check, 'scenario_wall_limit', 300.0))
        self.findings = F.load()

    def pool(self) -> cf.ProcessPoolExecutor:
        return cf.ProcessPoolExecutor(max_workers=self.jobs, mp_context=mp.get_context('fork'),
                                      initializer=_worker_init)

    # ------------------------------------------------------------------
    def explore(self) -> int:
        chk = self.check
        t_start = time.monotonic()
        if hasattr(chk, 'prepare'):
            chk.prepare(self.tier)
        quick_n = int(os.environ.get('VERIF_N', '0')) or chk.quick_n
        budget = float(os.environ.get('VERIF_BUDGET_S', '0')) or float(getattr(chk, 'thorough_budget_s', 600.0))
        max_n = quick_n if self.tier == 'quick' else int(os.environ.get('VERIF_MAX_N', '0')) or 10 ** 9
        agg = Aggregate(chk)
        violations: T.List[T.Tuple[int, T.Dict[str, T.Any], T.Dict[str, T.Any]]] = []
        known_v: T.List[T.Tuple[int, T.Dict[str, T.Any], T.Dict[str, T.Any]]] = []
        herrors: T.List[T.Tuple[int, T.Dict[str, T.Any]]] = []
        next_index = 0
        from concurrent.futures.process import BrokenProcessPool
        pools = [self.pool()]
        try:
            ex = pools[0]
            pending: T.Set[cf.Future] = set()
            fut_args: T.Dict[cf.Future, T.Tuple[T.Any, ...]] = {}
            attempts: T.Dict[int, int] = {}

            def submit(kind: str, index: int, payload: T.Any) -> None:
                attempts[index] = attempts.get(index, 0) + 1
                if kind == 'sc':
                    fu_ = pools[-1].submit(_run_sc_indexed, (index, payload, self.wall_limit))
                else:
                    fu_ = pools[-1].submit(_gen_and_run, (self.seed, self.tier, index, self.wall_limit))
                fut_args[fu_] = (kind, index, payload)
                pending.add(fu_)
            # regression scenarios of repaired / recorded findings run first, every time
            import glob
            # ... and so do the directed scenarios: minimal scenarios that once exposed an independently seeded change
            # (they keep the quick tier's reach independent of where the PRNG stream happens to go)
            for k, path in enumerate(sorted(glob.glob(os.path.join(E.VERIF_DIR, 'findings', chk.id + '-*.json')))
                                     + sorted(glob.glob(os.path.join(E.VERIF_DIR, 'directed', chk.id + '-*.json')))):
                with open(path) as f:
                    rsc = json.load(f)['scenario']
                submit('sc', -(k + 1), rsc)

            def feed() -> None:
                nonlocal next_index
                while len(pending) < self.jobs * 3 and next_index < max_n:
                    if self.tier != 'quick' and time.monotonic() - t_start > budget:
                        return
                    submit('gen', next_index, None)
                    next_index += 1
            feed()
            while pending:
                done, _ = cf.wait(pending, return_when=cf.FIRST_COMPLETED)
                lost: T.List[T.Tuple[T.Any, ...]] = []
                for fu in done:
                    pending.discard(fu)
                    try:
                        index, sc, out = fu.result()
                    except BrokenProcessPool:
                        lost.append(fut_args[fu])
                        continue
                    except Exception as e:
                        herrors.append((fut_args[fu][1], harness_error(f'worker died: {e!r}')))
                        continue
                    agg.add(index, sc, out)
                    if out['status'] == 'violation':
                        if F.match(self.findings, chk.id, out.get('signature', out['vclass'])) is not None:
                            known_v.append((index, sc, out))
                        else:
                            violations.append((index, sc, out))
                    elif out['status'] == 'harness_error':
                        herrors.append((index, out))
                if lost:
                    # a worker was killed (scenario wall limit, or from outside): the executor is unusable, everything in
                    # flight is lost. Start a new one; what was in flight gets one more try, then counts as a harness error.
                    for fu in list(pending):
                        lost.append(fut_args[fu])
                    pending.clear()
                    pools[-1].shutdown(wait=False, cancel_futures=True)
                    pools.append(self.pool())
                    ex = pools[-1]
                    for kind, index, payload in lost:
                        if attempts.get(index, 0) >= 2:
                            herrors.append((index, harness_error(f'scenario {index} lost twice with its worker (killed at the wall limit of {self.wall_limit:.0f}s or from outside)')))
                        else:
                            submit(kind, index, payload)
                if len(violations) >= 40 or len(herrors) >= 20:
                    for fu in pending:
                        fu.cancel()
                    pending = {fu for fu in pending if not fu.cancelled()}
                    max_n = next_index
                feed()
            explore_wall = time.monotonic() - t_start
            # ---- triage violations: known findings vs new
            reported: T.List[T.Dict[str, T.Any]] = []
            known_lines: T.Dict[str, str] = {}
            seen_sigs: T.Set[str] = set()
            for index, sc, out in sorted(violations + known_v, key=lambda v: v[0]):
                sig = out.get('signature', out['vclass'])
                for xs in out.get('extra_known') or []:
                    xk = F.match(self.findings, chk.id, xs)
                    if xk is not None:
                        known_lines.setdefault(xk['signature'], f"KNOWN-FINDING: property={chk.id} {xk['what']}")
                kf = F.match(self.findings, chk.id, sig)
                if kf is not None:
                    known_lines.setdefault(kf['signature'], f"KNOWN-FINDING: property={chk.id} {kf['what']}")
                    agg.known += 1
                    continue
                if sig in seen_sigs:
                    agg.dups += 1
                    continue
                seen_sigs.add(sig)
                if len(reported) >= 5:
                    continue
                rep = self.minimise_and_record(ex, index, sc, out)
                reported.append(rep)
        finally:
            for p_ in pools:
                p_.shutdown(wait=False, cancel_futures=True)
        for line in sorted(known_lines.values()):
            print(line)
        exit_code = 0
        nviol = 0
        for rep in reported:
            if rep['confirmed']:
                print(f"VIOLATION property={chk.id} replay={rep['path']}")
                print(f"  class={rep['vclass']} seed={self.seed} index={rep['index']} detail={rep['detail'][:600]}")
                nviol += 1
                exit_code = 1
            else:
                print(f"HARNESS-ERROR property={chk.id} non-replayable violation class={rep['vclass']} file={rep['path']}", file=sys.stderr)
                exit_code = max(exit_code, 2) if exit_code != 1 else 1
        if herrors:
            for index, he in herrors[:5]:
                print(f'HARNESS-ERROR property={chk.id} index={index}: {he["detail"][-3000:]}', file=sys.stderr)
            if exit_code == 0:
                exit_code = 2
        wall = time.monotonic() - t_start
        agg.write_evidence(self.tier, self.seed, wall, explore_wall, nviol, self.jobs)
        print(f'{chk.id} {self.tier}: {agg.n} scenarios, {agg.distinct_nontrivial()} distinct non-trivial, '
              f'{nviol} violation(s), {agg.known} known-finding hit(s), {len(herrors)} harness error(s), {wall:.1f}s')
        return exit_code

    # ------------------------------------------------------------------
    def digests(self, n: int) -> int:
        """Determinism self-test support: print one line per scenario index with
        the digest of everything observable about its execution."""
        chk = self.check
        if hasattr(chk, 'prepare'):
            chk.prepare(self.tier)
        with self.pool() as ex:
            futs = [ex.submit(_gen_and_run, (self.seed, self.tier, i, self.wall_limit)) for i in range(n)]
            for fu in futs:
                index, sc, out = fu.result()
                core = {k: out.get(k) for k in ('status', 'vclass', 'signature', 'trace_digest', 'distinct_key', 'faults', 'probes', 'sim_time', 'steps')}
                line = {'index': index, 'scenario': prng.short(sc), 'outcome': prng.short(core), 'status': out['status']}
                if os.environ.get('VERIF_DIGEST_CORE'):
                    line['core'] = dict(core, distinct_keys=out.get('distinct_keys'))
                print(json.dumps(line, sort_keys=True, default=str))
        return 0

    # ------------------------------------------------------------------
    def minimise_and_record(self, ex: cf.ProcessPoolExecutor, index: int, sc: T.Dict[str, T.Any],
                            out: T.Dict[str, T.Any]) -> T.Dict[str, T.Any]:
        chk = self.check
        vclass = out['vclass']
        best, best_out = sc, out
        budget = int(os.environ.get('VERIF_SHRINK_RUNS', '0')) or int(getattr(chk, 'shrink_runs', 200))
        used = 0
        t_end = time.monotonic() + float(getattr(chk, 'shrink_wall_s', 240.0))
        improved = True
        while improved and used < budget and time.monotonic() < t_end:
            improved = False
            cands: T.List[T.Dict[str, T.Any]] = []
            try:
                gen = chk.shrink_from(best, best_out) if hasattr(chk, 'shrink_from') else chk.shrink(best)
                for c in gen:
                    cands.append(c)
                    if len(cands) >= 4 * self.jobs:
                        break
            except Exception:
                cands = cands
            if not cands:
                break
            # evaluate a wave in parallel, take the first (in candidate order) that still fails the same way
            for w0 in range(0, len(cands), self.jobs):
                wave = cands[w0:w0 + self.jobs]
                futs = [ex.submit(_run_sc, (c, self.wall_limit)) for c in wave]
                used += len(wave)
                hit = None
                for c, fu in zip(wave, futs):
                    try:
                        o = fu.result()
                    except Exception:
                        continue
                    if hit is None and o['status'] == 'violation' and o['vclass'] == vclass:
                        hit = (c, o)
                if hit is not None:
                    best, best_out = hit
                    improved = True
                    break
                if used >= budget or time.monotonic() > t_end:
                    break
        rec = {
            'property': chk.id, 'seed': self.seed, 'tier': self.tier, 'index': index,
            'vclass': vclass, 'signature': best_out.get('signature'), 'detail': best_out.get('detail'),
            'scenario': best, 'original_scenario_digest': prng.short(sc),
            'trace': best_out.get('trace'), 'shrink_runs': used,
        }
        d = os.path.join(os.environ.get('VERIF_REPLAY_DIR') or os.path.join(E.VERIF_DIR, 'replays'), chk.id)
        os.makedirs(d, exist_ok=True)
        path = os.path.join(d, prng.short(best) + '.json')
        with open(path, 'w') as f:
            json.dump(rec, f, indent=1, sort_keys=True, default=str)
        # confirm in a fresh interpreter
        confirmed = False
        try:
            r = subprocess.run([E.PYTHON, os.path.join(E.VERIF_DIR, 'check'), chk.id, '--replay', path],
                               capture_output=True, text=True, timeout=self.wall_limit * 2,
                               env=dict(os.environ, VERIF_REPLAY_QUIET='1'))
            confirmed = r.returncode == 1 and f'class={vclass}' in r.stdout
        except subprocess.TimeoutExpired:
            confirmed = False
        return {'path': path, 'vclass': vclass, 'detail': str(best_out.get('detail')), 'confirmed': confirmed, 'index': index}

    # ------------------------------------------------------------------
    def replay(self, path: str) -> int:
        chk = self.check
        with open(path) as f:
            rec = json.load(f)
        sc = rec.get('scenario', rec)
        if hasattr(chk, 'prepare'):
            chk.prepare('replay')
        out = _run_one(sc, self.wall_limit)
        if out['status'] == 'violation':
            kf = F.match(self.findings, chk.id, out.get('signature', out['vclass']))
            if kf is not None:
                print(f"KNOWN-FINDING: property={chk.id} {kf['what']}")
                print(f"  class={out['vclass']} detail={str(out.get('detail'))[:2000]}")
                return 0
            print(f'VIOLATION property={chk.id} replay={path}')
            print(f"  class={out['vclass']} detail={str(out.get('detail'))[:2000]}")
            return 1
        if out['status'] == 'harness_error':
            print('HARNESS-ERROR ' + out['detail'], file=sys.stderr)
            return 2
        print(f'{chk.id} replay: property held on {path}')
        return 0


class Aggregate:
    def __init__(self, chk: T.Any) -> None:
        self.chk = chk
        self.n = 0
        self.keys: T.Set[str] = set()
        self.faults: T.Dict[str, int] = {}
        self.probes: T.Dict[str, int] = {}
        self.sim_time = 0.0
        self.steps = 0
        self.samples: T.List[T.Any] = []
        self.interleavings: T.Set[str] = set()
        self.known = 0
        self.dups = 0
        self.extra: T.Dict[str, T.Any] = {}
        self.scen_wall = 0.0

    def add(self, index: int, sc: T.Dict[str, T.Any], out: T.Dict[str, T.Any]) -> None:
        self.n += 1
        self.scen_wall += out.get('wall', 0.0)
        for k, v in (out.get('faults') or {}).items():
            self.faults[k] = self.faults.get(k, 0) + int(v)
        for k, v in (out.get('probes') or {}).items():
            self.probes[k] = self.probes.get(k, 0) + int(v)
        self.sim_time += float(out.get('sim_time', 0.0))
        self.steps += int(out.get('steps', 0))
        if out.get('nontrivial') and out.get('distinct_key'):
            self.keys.add(out['distinct_key'])
        for k in out.get('distinct_keys') or []:
            self.keys.add(k)
        for il in out.get('interleavings') or []:
            self.interleavings.add(il)
        if len(self.samples) < 3 and sc and out.get('nontrivial'):
            self.samples.append({'index': index, 'scenario': _truncate(sc), 'summary': out.get('summary')})

    def distinct_nontrivial(self) -> int:
        return len(self.keys)

    def write_evidence(self, tier: str, seed: int, wall: float, explore_wall: float, nviol: int, jobs: int) -> None:
        chk = self.chk
        per_hour = self.n / explore_wall * 3600.0 if explore_wall > 0 else 0.0
        if not self.samples:
            self.samples.append({'note': 'no non-trivial scenario in this run'})
        ev = {
            'property_id': chk.id,
            'tier': tier,
            'seed': seed,
            'level': chk.level,
            'coverage': {
                'evaluations': self.n,
                'distinct_nontrivial': self.distinct_nontrivial(),
                'rule': chk.rule,
                'samples': self.samples,
                'simulated_runs_per_hour': round(per_hour),
                'seeds_per_hour': round(per_hour),
                'simulated_seconds_covered': round(self.sim_time, 3),
                'simulator_steps': self.steps,
                'faults_fired': dict(sorted(self.faults.items())),
                'probes_hit': dict(sorted(self.probes.items())),
                'distinct_interleavings': len(self.interleavings),
                'interleaving_measure': getattr(chk, 'interleaving_measure', 'hash of the ordered externally caused event kinds per run'),
                'components': chk.engine_desc,
                'known_finding_hits': self.known,
                'workers': jobs,
                'exhaustive': False,
            },
            'assumptions': list(getattr(chk, 'assumptions', [])),
            'wall_s': round(wall, 2),
            'violations': nviol,
        }
        ev['coverage'].update(self.extra)
        d = os.environ.get('VERIF_EVIDENCE_DIR') or os.path.join(E.VERIF_DIR, 'evidence')
        os.makedirs(d, exist_ok=True)
        tmp = os.path.join(d, f'.{chk.id}.json.tmp')
        with open(tmp, 'w') as f:
            json.dump(ev, f, indent=1, sort_keys=True, default=str)
        os.replace(tmp, os.path.join(d, f'{chk.id}.json'))


def _truncate(o: T.Any, depth: int = 0) -> T.Any:
    if isinstance(o, dict):
        return {k: _truncate(v, depth + 1) for k, v in list(o.items())[:40]}
    if isinstance(o, list):
        r = [_truncate(v, depth + 1) for v in o[:12]]
        if len(o) > 12:
            r.append(f'... {len(o) - 12} more')
        return r
    if isinstance(o, str) and len(o) > 300:
        return o[:300] + f'...({len(o)} chars)'
    return o


# ---- generic structural shrinking helpers ---------------------------------

def drop_each(lst: T.List[T.Any], min_len: int = 0) -> T.Iterator[T.List[T.Any]]:
    """Chunks first (halves, quarters), then single elements."""
    n = len(lst)
    if n <= min_len:
        return
    size = n // 2
    while size >= 1:
        for start in range(0, n, size):
            cand = lst[:start] + lst[start + size:]
            if len(cand) >= min_len and len(cand) < n:
                yield cand
        if size == 1:
            break
        size //= 2
