"""Reference model for `meson test` (DESIGN Appendix A.2): selection,
classification and tallies, written from the documentation and the property
statement, not from mtest.py."""
from __future__ import annotations

import fnmatch
import re
import typing as T

BAD = {'FAIL', 'ERROR', 'TIMEOUT', 'UNEXPECTEDPASS', 'INTERRUPT'}
LABELS = ['OK', 'EXPECTEDFAIL', 'FAIL', 'ERROR', 'INTERRUPT', 'UNEXPECTEDPASS', 'SKIP', 'TIMEOUT', 'IGNORED']


def effective_timeout(timeout: T.Optional[int], mult: T.Optional[float]) -> T.Optional[float]:
    if timeout is None or timeout <= 0:
        return None
    if mult is None:
        return float(timeout)
    if mult <= 0:
        return None
    return timeout * mult


def classify_exitcode(code: int, should_fail: bool, expected: int = 0) -> str:
    # expected_exitcode (1.11): "the test is considered passed if the executable returns the specified returncode"
    if code == (expected or 0):
        r = 'OK'
    elif code == 77:
        r = 'SKIP'
    elif code == 99:
        r = 'ERROR'
    else:
        r = 'FAIL'
    if should_fail:
        if r == 'OK':
            r = 'UNEXPECTEDPASS'
        elif r == 'FAIL':
            r = 'EXPECTEDFAIL'
    return r


def pretty_name(t: T.Dict[str, T.Any]) -> str:
    name = f"{t['proj']}:{t['name']}"
    if t['suites']:
        name = '+'.join(t['suites']) + ' - ' + name
    return name


def in_suites(t: T.Dict[str, T.Any], specs: T.Sequence[str], top: str) -> bool:
    """Documented forms only: 'suite' (top-level project's suite, or a project
    name), 'project:suite', ':suite', 'project:'-less forms are not generated."""
    for s in specs:
        if ':' in s:
            prj, st = s.split(':', 1)
            if prj == '':
                if st in t['suites']:
                    return True
            elif prj == t['proj'] and st in t['suites']:
                return True
        else:
            if s == t['proj'] or s in t['suites']:
                return True
    return False


def name_matches(t: T.Dict[str, T.Any], arg: str) -> bool:
    if ':' in arg:
        prj, name = arg.split(':', 1)
        prj = prj or '*'
        name = name or '*'
    else:
        prj, name = '*', arg
    return fnmatch.fnmatch(t['proj'], prj) and fnmatch.fnmatch(t['name'], name)


def select(tests: T.Sequence[T.Dict[str, T.Any]], run: T.Dict[str, T.Any], top: str) -> T.List[str]:
    out = []
    for t in tests:
        if run.get('nosuites') and in_suites(t, run['nosuites'], top):
            continue
        ex = run.get('exclude') or []
        if (t['proj'] == top and t['name'] in ex) or f"{t['proj']}:{t['name']}" in ex:
            continue
        if run.get('suites'):
            # suites named with --suite always run, overriding the setup's exclude_suites
            if not in_suites(t, run['suites'], top):
                continue
        elif run.get('setup_exclude') and in_suites(t, run['setup_exclude'], top):
            continue
        if run.get('names') and not any(name_matches(t, a) for a in run['names']):
            continue
        out.append(t['id'])
    return out


_RE_RESULT = re.compile(r'^\s*(\d+)/(\d+) (.*?)\s+(OK|TIMEOUT|INTERRUPT|SKIP|FAIL|EXPECTEDFAIL|UNEXPECTEDPASS|ERROR|IGNORED)\s+(\d+\.\d+)s')
_RE_SUM = re.compile(r'^(Ok|Expected Fail|Fail|Unexpected Pass|Skipped|Ignored|Timeout):\s+(\d+)\s*$')


def parse_console(text: str) -> T.Tuple[T.List[T.Tuple[str, str]], T.Dict[str, int]]:
    results: T.List[T.Tuple[str, str]] = []
    summary: T.Dict[str, int] = {}
    in_failsum = False
    # a terminal run interleaves progress lines ending in \r and erase sequences
    text = re.sub(r'\x1b\[[0-9;]*[A-Za-z]', '', text).replace('\r', '\n')
    for line in text.splitlines():
        if line.strip() == 'Summary of Failures:':
            in_failsum = True     # repeats result lines already printed
            continue
        m = _RE_RESULT.match(line)
        if m:
            if not in_failsum:
                results.append((m.group(3), m.group(4)))
            continue
        m = _RE_SUM.match(line)
        if m:
            summary[m.group(1)] = int(m.group(2))
    return results, summary


def tally(labels: T.Iterable[str]) -> T.Dict[str, int]:
    c = {'Ok': 0, 'Expected Fail': 0, 'Fail': 0, 'Unexpected Pass': 0, 'Skipped': 0, 'Ignored': 0, 'Timeout': 0}
    for l in labels:
        if l == 'OK':
            c['Ok'] += 1
        elif l == 'EXPECTEDFAIL':
            c['Expected Fail'] += 1
        elif l in ('FAIL', 'ERROR', 'INTERRUPT'):
            c['Fail'] += 1
        elif l == 'UNEXPECTEDPASS':
            c['Unexpected Pass'] += 1
        elif l == 'SKIP':
            c['Skipped'] += 1
        elif l == 'IGNORED':
            c['Ignored'] += 1
        elif l == 'TIMEOUT':
            c['Timeout'] += 1
    return c
