#!/bin/bash
# usage: tools_eval_seeded.sh <PROP> <tag>   e.g. C11 a   -> worktree /tmp/wt-C11-a, out /tmp/seeded-out/C11-a
P=$1; T=$2; WT=/tmp/wt-$P-$T; OUT=/tmp/seeded-out/$P-$T
cd $WT || exit 9
git -C $WT checkout -q -- . ; git -C $WT apply $OUT/patch.diff || { echo "patch does not apply"; exit 9; }
echo "== pinned tests with change"; /venv/bin/python -m pytest -q -p no:cacheprovider --timeout=900 --continue-on-collection-errors unittests/taptests.py unittests/optiontests.py unittests/cargotests.py unittests/versiontests.py 2>&1 | tail -1
DEMO=$OUT/demo.py; RUN="/venv/bin/python $DEMO $WT"; [ -f $OUT/demo.sh ] && RUN="bash $OUT/demo.sh $WT"
echo "== demo with change"; timeout 600 $RUN > $OUT/demo_with.log 2>&1; echo "exit $?"
git -C $WT checkout -q -- .
echo "== demo without change"; timeout 600 $RUN > $OUT/demo_without.log 2>&1; echo "exit $?"
git -C $WT apply $OUT/patch.diff
echo "== check $P quick against the change"; cd /verif; VERIF_REPO=$WT VERIF_EVIDENCE_DIR=/tmp/seeded-out/ev VERIF_REPLAY_DIR=/tmp/seeded-out/replays timeout 3000 ./check $P --tier quick 2>&1 | grep -v "^  class" | tail -4
