"""C06 - configuration is deterministic and does not disturb unchanged outputs.

What the simulator owns here is the nondeterminism itself: one project + one
option set is configured several times at the *same* build-directory path under
different settings of the seams (PYTHONHASHSEED, order and padding of the
environment, directory-listing order) and through different histories (fresh,
reconfigure, configure round trip, wipe); generated text must be byte-identical
to the baseline.  A no-change reconfigure after a clock jump (all mtimes
back-dated) must leave unchanged configure-time outputs untouched.
"""
from __future__ import annotations

import copy
import hashlib
import json
import os
import random
import shutil
import subprocess
import typing as T

from sim.core import env as E
from sim.core import prng
from sim.core import runner as R
from sim.core import mesonrun as M
from sim.core import findings as F
from . import c05gen as G
from .c05 import STUB_NINJA_DIR

LAUNCHER = os.path.join(E.VERIF_DIR, 'sim', 'nd', 'launcher.py')


class Check:
    id = 'C06'
    level = 'exploration'
    quick_n = 16
    thorough_budget_s = 1200
    scenario_wall_limit = 1200.0
    shrink_runs = 40
    shrink_wall_s = 600.0
    rule = ('group = one generated C project (C05 generator + pkgconfig.generate, configure_file in configuration/copy/command mode and from input templates (meson/cmake/cmake@ format; LF, CRLF, CR, '
            'mixed line endings; latin-1), tests with '
            'env and depends, install rules, a subproject, several .wrap files) + one option set, configured 5-8 times at the same build-dir '
            'path: baseline (hash seed 0, identity permutations, fresh) and variants with drawn PYTHONHASHSEED, permuted and padded environment, '
            'permuted directory listings, and histories fresh / fresh+reconfigure / other-value+configure-back+reconfigure / wipe; plus one '
            'no-change reconfigure after back-dating every file. Non-trivial: the group produced >=2 different seam settings and the project '
            'has >=1 collection with >=2 reorderable elements (tests with >=2 depends, >=2 base options, >=2 wraps). Distinct by '
            '(project hash, seam-setting tuple).')
    interleaving_measure = 'distinct (hash seed, env permutation, listing permutation, history) tuples'
    engine_desc = {
        'real': ['the whole configure pipeline of a real `python meson.py` process per configuration (interpreter, ninja backend, mintro, pkgconfig module, coredata)'],
        'stub': ['`ninja` binary (version / compdb only)', 'directory listing functions are wrapped with a seeded permutation inside the child (sim/nd/launcher.py)'],
    }
    assumptions = [
        'same tools, same source and build directory paths for every member of a group',
        'meson-log.txt, coredata.dat/build.dat (pickles with GUIDs), compile_commands.json (stub ninja output) and install/test pickles are not compared; the statement lists generated text',
        'mtime preservation is demanded for configure_file outputs in configuration and copy mode and for generated unity sources (what meson itself writes through replace_if_different / copy2, the mechanism the property is anchored in, i.e. files that build steps consume); a configure_file(command:) output is written by the command; build.ninja, meson-info, generated .pc files and depmf.json (consumed by IDEs and by `meson install` only) are re-created by every configuration and only their content is compared',
    ]

    def prepare(self, tier: str) -> None:
        pass

    # ------------------------------------------------------------------ generation
    def corpus_list(self) -> T.List[str]:
        p = os.path.join(E.VERIF_DIR, 'checks', 'c06_corpus_ok.txt')
        if not os.path.exists(p):
            return []
        with open(p) as f:
            return [l.strip() for l in f if l.strip() and not l.startswith('#')]

    def generate(self, rng: random.Random, tier: str, index: int) -> T.Dict[str, T.Any]:
        corpus = self.corpus_list() if tier != 'quick' else []
        if corpus and rng.random() < 0.3:
            hist_pool = ['fresh', 'reconfigure', 'wipe', 'fresh']
            variants = [{'hashseed': rng.choice([1, 2, 17, rng.randrange(1, 4000000000)]), 'envperm': rng.randrange(1 << 30), 'pad': rng.choice([0, 100, 5000]),
                         'lsseed': rng.choice([0, rng.randrange(1, 1 << 30)]), 'history': rng.choice(hist_pool)} for _ in range(4)]
            return {'kind': 'c06', 'corpus': corpus[rng.randrange(len(corpus))], 'opts': {}, 'variants': variants, 'backdate': 3600}
        spec = G.gen_project(rng, 'big')
        extras = {
            'pkgconfig': rng.random() < 0.7,
            'tests': rng.randint(1, 3),
            'install': rng.random() < 0.7,
            'wraps': rng.randint(0, 4),
            'cfg_modes': rng.sample(['configuration', 'copy', 'command'], rng.randint(1, 3)),
            'cc_checks': rng.random() < 0.6,
            'ext_deps': rng.random() < 0.6,
        }
        # configure_file(input:, configuration:) templates in each variable format and line-ending convention
        extras['ct_env'] = rng.random() < 0.6      # a custom target whose env: is an environment() object (set/append/prepend/unset)
        extras['depmf'] = rng.random() < 0.5       # the dependency manifest (depmf.json) of a project with licence information
        extras['templates'] = [{'fmt': rng.choice(['meson', 'cmake', 'cmake@']), 'nl': rng.choice(['lf', 'crlf', 'crlf', 'mixed', 'cr']),
                                'exec': rng.random() < 0.3, 'encoding': rng.choice([None, None, 'latin-1'])}
                               for _ in range(rng.randint(0, 3))]
        opts = {}
        if rng.random() < 0.5:
            opts['b_lto'] = rng.choice(['true', 'false'])
        if rng.random() < 0.5:
            opts['warning_level'] = rng.choice(['0', '2', '3'])
        if rng.random() < 0.3:
            opts['b_ndebug'] = rng.choice(['true', 'if-release'])
        if rng.random() < 0.5:
            opts['c_args'] = rng.choice(['-DC06_LEVEL=3', '-DC06_LEVEL=2 -DC06_EXTRA'])      # flags the compiler checks depend on
        nvar = 4 if tier == 'quick' else 6
        variants = []
        hist_pool = ['fresh', 'fresh', 'reconfigure', 'roundtrip', 'wipe']
        for k in range(nvar):
            variants.append({'hashseed': rng.choice([1, 2, 3, 17, 12345, rng.randrange(1, 4000000000)]),
                             'envperm': rng.randrange(1 << 30), 'pad': rng.choice([0, 0, 100, 5000]),
                             'lsseed': rng.choice([0, rng.randrange(1, 1 << 30)]),
                             'history': hist_pool[k % len(hist_pool)] if tier == 'quick' else rng.choice(hist_pool)})
        backdate = rng.choice([3600, 86400 * 30, 5])
        if 'copy' in extras.get('cfg_modes', []) or extras.get('templates'):
            # (extra stream, added late) the *sources* have a history too: the inputs of configure_file() reach their present
            # content through an edit that keeps size and time stamp (cp -p, rsync -t, two edits within one clock tick)
            rx = prng.derive(prng.base_seed(), 'c06-extra', tier, index)
            variants.append({'hashseed': rx.choice([0, 1, 17]), 'envperm': 0, 'pad': 0, 'lsseed': 0, 'history': 'edited',
                             'edit_mtime': rx.choice(['same', 'same', 'newer'])})
        return {'kind': 'c06', 'spec': spec, 'extras': extras, 'opts': opts, 'variants': variants, 'backdate': backdate}

    # ------------------------------------------------------------------ project
    def render(self, sc: T.Dict[str, T.Any], sd: str) -> T.List[str]:
        if sc.get('corpus'):
            shutil.copytree(os.path.join(E.repo_dir(), 'test cases', 'common', sc['corpus']), sd, symlinks=True)
            return ['*']
        G.render(sc['spec'], sd)
        ex = sc['extras']
        ents = sc['spec']['ents']
        libs = [e['name'] for e in ents if e['kind'] == 'lib']
        exes = [e['name'] for e in ents if e['kind'] == 'exe']
        ctargets = [e['name'] for e in ents if e['kind'] in ('hdr', 'value', 'run', 'pair')]
        add: T.List[str] = []
        cfg_outputs: T.List[str] = []
        if ex.get('pkgconfig') and libs:
            add.append("pkg = import('pkgconfig')\n")
            add.append(f"pkg.generate({libs[0]}, name: 'c06lib', description: 'generated', version: '1.0', variables: ['zeta=1', 'alpha=2'], "
                       f"extra_cflags: ['-DZ', '-DA'])\n")
        for k in range(ex.get('tests', 0)):
            if not exes:
                break
            e = exes[k % len(exes)]
            dep = ', '.join((libs + ctargets)[:3 + k])
            add.append(f"test('t{k}', {e}, env: ['ZED=1', 'ALPHA=2', 'MID=3'], depends: [{dep}], suite: ['s{k}', 'zz', 'aa'])\n")
        if ex.get('install'):
            add.append("install_data('data.txt', install_dir: 'share/c06')\ninstall_headers('inst.h')\n")
            # a tree with several entries: whatever order the directory listing has must not show in generated text
            td = os.path.join(sd, 'instree')
            for rel in ('zz/last.txt', 'aa/first.txt', 'mm/mid.txt', 'top1.txt', 'top0.txt', 'aa/second.txt'):
                os.makedirs(os.path.dirname(os.path.join(td, rel)), exist_ok=True)
                with open(os.path.join(td, rel), 'w') as f:
                    f.write(rel + '\n')
            add.append("install_subdir('instree', install_dir: 'share/c06tree', exclude_files: ['mm/mid.txt', 'top1.txt', 'aa/second.txt', 'zz/none.txt', 'aa/first.txt'], "
                       "exclude_directories: ['zz', 'nn', 'kk', 'aa/deep', 'bb'])\n")
            add.append("fs = import('fs')\nconfigure_file(output: 'c06_listing.txt', command: [py, '-c', 'import sys; open(sys.argv[1], \"w\").write(\"x\")', '@OUTPUT@'])\n")
            with open(os.path.join(sd, 'inst.h'), 'w') as f:
                f.write('#define INST 1\n')
        head: T.List[str] = []
        if ex.get('cc_checks'):
            # compiler checks: their results are cached in coredata.dat across reconfigures (history dimension)
            head.append("cc = meson.get_compiler('c')\n"
                       "supp = cc.get_supported_arguments(['-Wundef', '-Woverloaded-virtual', '-Wshadow', '-Wno-such-warning-at-all', '-fvisibility=hidden', '-Wsuggest-override'])\n"
                       "add_project_arguments(supp, language: 'c')\n"
                       "ccdata = configuration_data()\n"
                       "ccdata.set10('HAVE_STDIO', cc.has_header('stdio.h'))\n"
                       "ccdata.set10('HAVE_NOPE', cc.has_header('no/such/header.h'))\n"
                       "ccdata.set10('HAVE_PRINTF', cc.has_function('printf'))\n"
                       "ccdata.set10('HAVE_OVERLOADED_VIRTUAL', cc.has_argument('-Woverloaded-virtual'))\n"
                       "ccdata.set('SIZEOF_INT', cc.sizeof('int'))\n"
                       "ccdata.set10('COMPILES', cc.compiles('int main(void) { return 0; }', name: 'trivial'))\n"
                       "ccdata.set('SUPPORTED', ' '.join(supp))\n"
                       "ccdata.set('LEVEL_SEEN', cc.get_define('C06_LEVEL'))\n"
                       "ccdata.set10('LEVEL_GE2', cc.compiles('#if !defined(C06_LEVEL) || C06_LEVEL < 2\\n#error low\\n#endif\\nint x;', name: 'level'))\n"
                       "configure_file(output: 'c06_cc.h', configuration: ccdata)\n")
            cfg_outputs.append('c06_cc.h')
        for mode in ex.get('cfg_modes', []):
            if mode == 'configuration':
                add.append("cdata = configuration_data()\ncdata.set('ZVAL', 1)\ncdata.set('AVAL', 2)\ncdata.set10('FLAG', true)\n"
                           "configure_file(output: 'c06_conf.h', configuration: cdata)\n")
                cfg_outputs.append('c06_conf.h')
            elif mode == 'copy':
                add.append("configure_file(input: 'data.txt', output: 'c06_copy.txt', copy: true)\n")
                cfg_outputs.append('c06_copy.txt')
            elif mode == 'command':
                add.append("configure_file(output: 'c06_cmd.h', command: [py, files('gen.py'), 'define', '@OUTPUT@', 'CMD_VAL', '7'])\n")
                cfg_outputs.append('c06_cmd.h')
        for ti, tp in enumerate(ex.get('templates', [])):
            nl = {'lf': ['\n'], 'crlf': ['\r\n'], 'cr': ['\r'], 'mixed': ['\r\n', '\n', '\r\n', '\n', '\n']}[tp['nl']]
            if tp['fmt'] == 'meson':
                body = ['/* template %d */' % ti, '#mesondefine TZ_FLAG', '#mesondefine TZ_UNSET', '#define TZ_NAME "@TZ_NAME@"', 'static const int tz_val = @TZ_VAL@;', '']
            elif tp['fmt'] == 'cmake':
                body = ['/* template %d */' % ti, '#cmakedefine TZ_FLAG', '#cmakedefine TZ_UNSET', '#define TZ_NAME "${TZ_NAME}"', 'static const int tz_val = ${TZ_VAL};', '']
            else:
                body = ['/* template %d */' % ti, '#cmakedefine TZ_FLAG', '#cmakedefine01 TZ_UNSET', '#define TZ_NAME "@TZ_NAME@"', 'static const int tz_val = @TZ_VAL@;', '']
            if tp.get('encoding'):
                body[0] = '/* template %d caf\u00e9 */' % ti
            text = ''.join(l + nl[i % len(nl)] for i, l in enumerate(body))
            tf = os.path.join(sd, f'tmpl{ti}.h.in')
            with open(tf, 'w', encoding=tp.get('encoding') or 'utf-8', newline='') as f:
                f.write(text)
            if tp.get('exec'):
                os.chmod(tf, 0o755)
            enc = f", encoding: '{tp['encoding']}'" if tp.get('encoding') else ''
            add.append(f"tdata{ti} = configuration_data()\ntdata{ti}.set('TZ_FLAG', true)\ntdata{ti}.set('TZ_NAME', 'name{ti}')\ntdata{ti}.set('TZ_VAL', {ti + 3})\n"
                       f"configure_file(input: 'tmpl{ti}.h.in', output: 'c06_tmpl{ti}.h', configuration: tdata{ti}, format: '{tp['fmt']}'{enc})\n")
            cfg_outputs.append(f'c06_tmpl{ti}.h')
        if ex.get('ct_env'):
            add.append("cenv = environment()\ncenv.set('C06_ZED', '1')\ncenv.set('C06_ALPHA', '2')\ncenv.append('C06_PATHLIKE', 'x', 'y')\ncenv.prepend('C06_PRE', 'p')\n"
                       + ''.join(f"cenv.unset('{n}')\n" for n in ('C06_UNSET_ZULU', 'C06_UNSET_ALPHA', 'C06_UNSET_MIKE', 'LANGUAGE', 'C06_UNSET_ECHO'))
                       + "custom_target('c06_envct', output: 'c06_envct.txt', command: [py, files('gen.py'), 'value', '@OUTPUT@', '3'], env: cenv, build_by_default: true)\n"
                       "run_target('c06_envrun', command: [py, files('gen.py'), 'value', 'c06_envrun.txt', '4'], env: cenv)\n")
        if ex.get('ext_deps'):
            # external dependencies held in variables: they live in coredata's dependency cache across reconfigures
            head.append("thr_dep = dependency('threads')\n"
                        "z_dep = dependency('zlib', required: false)\n"
                        "nope_dep = dependency('no-such-dependency-anywhere', required: false)\n"
                        "m_dep = meson.get_compiler('c').find_library('m', required: false)\n")
        # include_directories() of a directory whose build-tree counterpart only comes into being later in the same configuration
        # (a subdir() further down): whether -I<builddir>/c06later is emitted must not depend on the directory having been
        # left there by an earlier run
        head.append("inc_later = include_directories('c06later')\n")
        os.makedirs(os.path.join(sd, 'c06later'), exist_ok=True)
        with open(os.path.join(sd, 'c06later', 'meson.build'), 'w') as f:
            f.write("configure_file(output: 'c06later.h', configuration: {'LATER': 1})\n")
        with open(os.path.join(sd, 'c06_later_main.c'), 'w') as f:
            f.write('#include "c06later.h"\nint main(void) { return LATER - 1; }\n')
        add.append("subdir('c06later')\nexecutable('c06_later_user', 'c06_later_main.c', include_directories: inc_later)\n")
        cfg_outputs.append('c06later/c06later.h')
        with open(os.path.join(sd, 'meson.build')) as f:
            lines = f.readlines()
        # project arguments must be added before the first target: right after the preamble
        k = next(i for i, l in enumerate(lines) if l.startswith('gen = generator(')) + 1
        lines[k:k] = head
        if ex.get('depmf'):
            assert lines[0].startswith("project('c05', ") and ', default_options: ' in lines[0]
            lines[0] = lines[0].replace(", default_options: ", ", version: '1.2.3', license: ['MIT', 'Apache-2.0', 'BSD-3-Clause'], "
                                        "license_files: ['LICENSE.zz', 'LICENSE.aa'], default_options: ", 1)
            for n in ('LICENSE.zz', 'LICENSE.aa'):
                with open(os.path.join(sd, n), 'w') as f:
                    f.write('text of ' + n + '\n')
            add.append("meson.install_dependency_manifest('share/c06/depmf.json')\n")
            cfg_outputs.append('depmf.json')
        with open(os.path.join(sd, 'meson.build'), 'w') as f:
            f.write(''.join(lines) + ''.join(add))
        if ex.get('wraps'):
            sp = os.path.join(sd, 'subprojects')
            os.makedirs(sp, exist_ok=True)
            for k in range(ex['wraps']):
                nm = ['zlibx', 'alpha', 'mid', 'beta'][k]
                with open(os.path.join(sp, f'{nm}.wrap'), 'w') as f:
                    f.write(f"[wrap-file]\ndirectory = {nm}-1.0\nsource_url = http://example.invalid/{nm}.tar.gz\nsource_filename = {nm}.tar.gz\n"
                            f"source_hash = {hashlib.sha256(nm.encode()).hexdigest()}\n\n[provide]\n{nm} = {nm}_dep\ndependency_names = {nm}-2, lib{nm}\n")
        for e in ents:
            if e['kind'] == 'cfg':
                d = sc['spec']['segs'][e['seg']]
                cfg_outputs.append((d + '/' if d else '') + e['name'] + '.h')
        return cfg_outputs

    # ------------------------------------------------------------------ one configuration
    def meson(self, root: str, args: T.List[str], hashseed: int, envperm: int, pad: int, lsseed: int, tag: str) -> T.Tuple[int, str]:
        base = M.clean_env()
        base['PATH'] = STUB_NINJA_DIR + os.pathsep + base['PATH']
        base['VERIF_ND_REPO'] = E.repo_dir()
        base['VERIF_ND_SEED'] = str(lsseed)
        base['PYTHONHASHSEED'] = str(hashseed)
        base['CC'] = 'cc'
        # environment-derived options: the same values for every member of a group, only their position varies
        base['CFLAGS'] = '-DFROM_ENV_CFLAGS -O1'
        base['CPPFLAGS'] = '-DFROM_ENV_CPPFLAGS'
        base['LDFLAGS'] = '-Wl,-O1'
        base['PKG_CONFIG_PATH'] = '/nonexistent/a:/nonexistent/b'
        for k in range(3):
            base[f'VERIF_EXTRA_{k}'] = f'v{k}'
        if pad:
            base['VERIF_PAD'] = 'x' * pad
        items = sorted(base.items())
        if envperm:
            random.Random(envperm).shuffle(items)
        env = dict(items)
        cp = subprocess.run([E.PYTHON, LAUNCHER] + args, env=env, capture_output=True, text=True, errors='backslashreplace', timeout=600, cwd=root)
        with open(os.path.join(root, f'cfg-{tag}.log'), 'w') as f:
            f.write(cp.stdout + cp.stderr)
        return cp.returncode, cp.stdout + cp.stderr

    @staticmethod
    def collect(bd: str, cfg_outputs: T.List[str]) -> T.Dict[str, bytes]:
        out: T.Dict[str, bytes] = {}

        def put(rel: str) -> None:
            p = os.path.join(bd, rel)
            if os.path.isfile(p):
                with open(p, 'rb') as f:
                    out[rel] = f.read()
        put('build.ninja')
        info = os.path.join(bd, 'meson-info')
        if os.path.isdir(info):
            for n in sorted(os.listdir(info)):
                if n.endswith('.json'):
                    put(os.path.join('meson-info', n))
        if cfg_outputs == ['*']:
            # corpus project: every file a configuration leaves in the build directory outside meson's own bookkeeping
            for dp, dn, fn in os.walk(bd):
                reld = os.path.relpath(dp, bd)
                if reld.split(os.sep)[0] in ('meson-private', 'meson-logs', 'meson-info'):
                    dn[:] = []
                    continue
                for n in sorted(fn):
                    rel = os.path.normpath(os.path.join(reld, n))
                    if rel in ('compile_commands.json', '.gitignore', '.hgignore', 'CACHEDIR.TAG', 'build.ninja') or n.endswith('~'):
                        continue
                    if not os.path.islink(os.path.join(dp, n)):
                        put(rel)
        else:
            for rel in cfg_outputs:
                put(rel)
        for sub in ('meson-private', 'meson-uninstalled'):
            d = os.path.join(bd, sub)
            if os.path.isdir(d):
                for n in sorted(os.listdir(d)):
                    if n.endswith('.pc') or n.endswith('.cmake'):
                        put(os.path.join(sub, n))
        for dp, dn, fn in os.walk(bd):
            for n in fn:
                if '-unity' in n and n.endswith(('.c', '.cpp')):
                    put(os.path.relpath(os.path.join(dp, n), bd))
        return out

    @staticmethod
    def pathfree(b: bytes, root: str) -> bytes:
        """For the determinism digest only: the scratch path, and the digests meson derives from command lines that contain it
        (names of meson_exe_*.dat wrappers), differ from run to run of the harness."""
        import re
        return re.sub(rb'(meson_exe_[^ /]*?_)[0-9a-f]{40}(\.dat)', rb'\1<HASH>\2', b.replace(root.encode(), b'<ROOT>'))

    def run(self, sc: T.Dict[str, T.Any]) -> T.Dict[str, T.Any]:
        root = E.mkscratch('c06')
        try:
            return self._run(sc, os.path.realpath(root))
        except subprocess.TimeoutExpired as e:
            return R.harness_error(f'meson exceeded the wall limit: {e}'[:1000])
        finally:
            E.rmscratch(root)

    def _run(self, sc: T.Dict[str, T.Any], root: str) -> T.Dict[str, T.Any]:
        sd = os.path.join(root, 'src')
        bd = os.path.join(root, 'bd')
        cfg_outputs = self.render(sc, sd)
        dargs = [f'-D{k}={v}' for k, v in sorted(sc.get('opts', {}).items())]
        probes: T.Dict[str, int] = {}
        faults: T.Dict[str, int] = {}

        def add(d: T.Dict[str, int], k: str, n: int = 1) -> None:
            d[k] = d.get(k, 0) + n
        rc, out = self.meson(root, ['setup', bd, sd] + dargs, 0, 0, 0, 0, 'base')
        if rc != 0:
            if 'Traceback (most recent call last)' in out:
                return R.violation('sut-exception', 'meson setup crashed: ' + out[-2000:], 'sut-exception:setup')
            if not sc.get('corpus'):
                # a generated project is valid by construction: looking away here would hide a generator bug or a broken setup
                return R.harness_error('a generated project does not configure: ' + out[-1500:])
            add(probes, 'project-does-not-configure')
            return R.ok(nontrivial=False, probes=probes, summary={'skipped': 'baseline does not configure', 'why': out[-500:]})
        base = self.collect(bd, cfg_outputs)
        known = F.load()
        first_new: T.Optional[T.Dict[str, T.Any]] = None
        first_known: T.Optional[T.Dict[str, T.Any]] = None
        known_sigs: T.List[str] = []
        keys: T.List[str] = []
        projhash = prng.short(sc.get('spec') or sc.get('corpus'))
        # ---- (b) no-change reconfigure after a clock jump
        # clock jump: every file of the source and build trees moves back by the same offset, so all
        # relations between timestamps (e.g. a copied file carrying its source's mtime) are preserved
        off = int(sc.get('backdate', 3600)) * 10 ** 9
        for top in (sd, bd):
            for dp, dn, fn in os.walk(top):
                for n in fn + dn:
                    p = os.path.join(dp, n)
                    try:
                        st = os.lstat(p)
                        os.utime(p, ns=(st.st_atime_ns - off, st.st_mtime_ns - off), follow_symlinks=False)
                    except OSError:
                        pass
        before_m = {rel: os.stat(os.path.join(bd, rel)).st_mtime_ns for rel in base if os.path.exists(os.path.join(bd, rel))}
        rc, out = self.meson(root, ['setup', '--reconfigure', bd, sd], 0, 0, 0, 0, 'nochange')
        add(faults, 'clock-jump-backdate')
        viols: T.List[T.Dict[str, T.Any]] = []
        if rc != 0:
            viols.append(R.violation('reconfigure-fails', 'a no-change reconfigure fails: ' + out[-800:], 'reconfigure-fails'))
        else:
            after = self.collect(bd, cfg_outputs)
            if after.get('build.ninja') != base.get('build.ninja'):
                viols.append(R.violation('nochange-differs', 'build.ninja changed over a no-change reconfigure: ' + self.first_diff(base['build.ninja'], after.get('build.ninja', b'')),
                                         'nochange-differs:build.ninja'))
            for rel in sorted(base) if not sc.get('corpus') else []:
                if rel == 'build.ninja' or rel.startswith('meson-info') or rel.endswith(('.pc', '.cmake')) or rel in ('c06_cmd.h', 'depmf.json'):
                    continue   # (configure_file(command:) output is written by the user's command itself, not by meson)
                if after.get(rel) == base[rel] and os.stat(os.path.join(bd, rel)).st_mtime_ns != before_m.get(rel):
                    viols.append(R.violation('touched-unchanged', f'{rel} has unchanged content but was rewritten (mtime changed) by a no-change reconfigure',
                                             f'touched-unchanged:{self.classify(rel)}'))
                    break
            add(probes, 'mtime-checked-files', sum(1 for rel in base if not (rel == 'build.ninja' or rel.startswith('meson-info') or rel.endswith(('.pc', '.cmake')))))
        # ---- (a) variants
        settings = []
        for vi, var in enumerate(sc['variants']):
            shutil.rmtree(bd, ignore_errors=True)
            h = var['history']
            hs, ep, pad, ls = var['hashseed'], var['envperm'], var['pad'], var['lsseed']
            steps: T.List[T.Any]
            if h == 'fresh':
                steps = [['setup', bd, sd] + dargs]
            elif h == 'reconfigure':
                steps = [['setup', bd, sd] + dargs, ['setup', '--reconfigure', bd, sd]]
            elif h == 'wipe':
                steps = [['setup', bd, sd] + dargs, ['setup', '--wipe', bd, sd]]
            elif h == 'edited':
                # the inputs of configure_file() are first given an earlier content of the same size (and the same time stamp);
                # the directory is configured, the present content comes back, the directory is reconfigured
                inputs = sorted(p_ for p_ in (os.path.join(sd, n_) for n_ in os.listdir(sd)) if os.path.basename(p_) == 'data.txt' or
                                (os.path.basename(p_).startswith('tmpl') and p_.endswith('.h.in')))
                saved = {}
                for p_ in inputs:
                    with open(p_, 'rb') as f:
                        now_b = f.read()
                    st_ = os.stat(p_)
                    saved[p_] = (now_b, st_.st_atime_ns, st_.st_mtime_ns)
                    old_b = now_b.swapcase() if os.path.basename(p_) == 'data.txt' else now_b.replace(b'template', b'TEMPLATE', 1)
                    with open(p_, 'wb') as f:
                        f.write(old_b)
                    os.utime(p_, ns=(st_.st_atime_ns, st_.st_mtime_ns))

                def put_back(saved: T.Dict[str, T.Any] = saved, newer: bool = (var.get('edit_mtime') == 'newer')) -> None:
                    for p_, (b_, at_, mt_) in saved.items():
                        with open(p_, 'wb') as f:
                            f.write(b_)
                        os.utime(p_, ns=(at_, mt_))            # the scenario's own time stamps: every later variant sees the sources as they were
                    if newer:
                        pass                                   # ('newer' = the earlier content carried an older stamp, set below)
                if var.get('edit_mtime') == 'newer':
                    for p_, (b_, at_, mt_) in saved.items():
                        os.utime(p_, ns=(at_, mt_ - 7_000_000_000))
                steps = [['setup', bd, sd] + dargs, put_back, ['setup', '--reconfigure', bd, sd]]
                if saved:
                    add(faults, 'source-edit-keeping-size' + ('-and-mtime' if var.get('edit_mtime') != 'newer' else ''))
            else:
                # the directory is first configured with other values and then brought to the ones under test
                other = ['-Dwarning_level=1' if sc.get('opts', {}).get('warning_level', '1') != '1' else '-Dwarning_level=2']
                orig = [f"-Dwarning_level={sc.get('opts', {}).get('warning_level', '1')}"]
                if 'c_args' in sc.get('opts', {}):
                    # (only when the baseline names c_args itself: otherwise they come from CFLAGS in the environment)
                    other.append('-Dc_args=-DC06_LEVEL=1')
                    orig.append(f"-Dc_args={sc['opts']['c_args']}")
                steps = [['setup', bd, sd] + dargs + other, ['configure', bd] + orig, ['setup', '--reconfigure', bd, sd]]
            ok_ = True
            for si, args in enumerate(steps):
                if callable(args):
                    args()
                    continue
                rc, out = self.meson(root, args, hs, ep, pad, ls, f'v{vi}-{si}')
                if rc != 0:
                    ok_ = False
                    viols.append(R.violation('variant-fails', f'variant {var} step {args[:2]} fails although the baseline configures: {out[-800:]}', f'variant-fails:{h}'))
                    break
            add(faults, 'hashseed-varied')
            if ep:
                add(faults, 'environ-permuted')
            if ls:
                add(faults, 'readdir-permuted')
            add(faults, 'history-' + h)
            if not ok_:
                continue
            got = self.collect(bd, cfg_outputs)
            settings.append((hs, ep != 0, pad, ls != 0, h))
            keys.append(prng.short([projhash, hs, ep, pad, ls, h]))
            for rel in sorted(set(base) | set(got)):
                if base.get(rel) != got.get(rel):
                    detail = self.first_diff(base.get(rel, b''), got.get(rel, b''))
                    what = self.what_differs(rel, base.get(rel, b''), got.get(rel, b''))
                    viols.append(R.violation('nondeterministic-output', f'{rel} differs from the baseline under PYTHONHASHSEED={hs} envperm={ep} pad={pad} listing-seed={ls} '
                                             f'history={h}: {detail}', f'nondeterministic-output:{self.classify(rel)}:{what}'))
        for v in viols:
            kf = F.match(known, self.id, v['signature'])
            if kf is None:
                if first_new is None:
                    first_new = v
            else:
                known_sigs.append(v['signature'])
                if first_known is None:
                    first_known = v
        reorderable = bool(sc.get('corpus')) or (sc['extras'].get('tests', 0) >= 1) or sc['extras'].get('wraps', 0) >= 2
        basekw = dict(faults=faults, probes=probes, nontrivial=len(set(settings)) >= 2 and reorderable, distinct_keys=keys, distinct_key=prng.short(keys),
                      interleavings=[prng.short(list(s)) for s in settings], steps=len(sc['variants']) + 2)
        if first_new is not None:
            first_new.update(basekw)
            first_new['extra_known'] = sorted(set(known_sigs))
            return first_new
        if first_known is not None:
            first_known.update(basekw)
            first_known['extra_known'] = sorted(set(known_sigs))
            return first_known
        return R.ok(summary={'files_compared': sorted(base)[:12], 'variants': sc['variants'][:3]}, trace_digest=prng.digest(sorted(hashlib.sha256(self.pathfree(b, root)).hexdigest() for b in base.values())), **basekw)

    @staticmethod
    def classify(rel: str) -> str:
        if rel.startswith('meson-info/'):
            return rel[len('meson-info/'):]
        if rel.endswith('.pc'):
            return 'pkgconfig'
        if rel == 'build.ninja':
            return 'build.ninja'
        if '-unity' in rel:
            return 'unity-source'
        return 'configure_file'

    @staticmethod
    def first_diff(a: bytes, b: bytes) -> str:
        la, lb = a.decode('utf-8', 'replace').splitlines(), b.decode('utf-8', 'replace').splitlines()
        if len(la) <= 2 and len(lb) <= 2:
            # single-line JSON: find the first differing region
            sa, sb = a.decode('utf-8', 'replace'), b.decode('utf-8', 'replace')
            i = next((k for k in range(min(len(sa), len(sb))) if sa[k] != sb[k]), min(len(sa), len(sb)))
            return f'at byte {i}: baseline ...{sa[max(0, i - 60):i + 100]!r}... vs ...{sb[max(0, i - 60):i + 100]!r}...'
        for i, (x, y) in enumerate(zip(la, lb)):
            if x != y:
                return f'line {i + 1}: baseline {x[:200]!r} vs {y[:200]!r}'
        return f'length {len(la)} vs {len(lb)} lines'

    @staticmethod
    def what_differs(rel: str, a: bytes, b: bytes) -> str:
        """For JSON files: the key path of the first difference (keeps signatures specific)."""
        if not rel.endswith('.json'):
            return 'text'
        try:
            ja, jb = json.loads(a), json.loads(b)
        except Exception:
            return 'unparsable'

        def walk(x: T.Any, y: T.Any, path: str) -> T.Optional[str]:
            if type(x) is not type(y):
                return path + ':type'
            if isinstance(x, dict):
                if list(x.keys()) != list(y.keys()):
                    return path + (':keyorder' if sorted(x.keys()) == sorted(y.keys()) else ':keys')
                for k in x:
                    r = walk(x[k], y[k], path + '.' + str(k))
                    if r:
                        return r
                return None
            if isinstance(x, list):
                if len(x) != len(y):
                    return path + ':length'
                for i, (p, q_) in enumerate(zip(x, y)):
                    r = walk(p, q_, path + '[]')
                    if r:
                        if r.endswith('[]:value') or r == path + '[]:value':
                            try:
                                if sorted(map(json.dumps, x)) == sorted(map(json.dumps, y)):
                                    return path + ':order'
                            except Exception:
                                pass
                        return r
                return None
            return None if x == y else path + ':value'
        r = walk(ja, jb, '')
        if r and r.endswith(':value'):
            # a list of objects in different order shows up as value differences inside the elements
            try:
                if isinstance(ja, list) and sorted(map(lambda o: json.dumps(o, sort_keys=True), ja)) == sorted(map(lambda o: json.dumps(o, sort_keys=True), jb)):
                    return ':order'
            except Exception:
                pass
        return r or 'same-json'

    # ------------------------------------------------------------------ shrinking
    def shrink(self, sc: T.Dict[str, T.Any]) -> T.Iterator[T.Dict[str, T.Any]]:
        if len(sc['variants']) > 1:
            for v in sc['variants']:
                c = copy.deepcopy(sc)
                c['variants'] = [v]
                yield c
        for i, v in enumerate(sc['variants']):
            for key, simple in (('envperm', 0), ('pad', 0), ('lsseed', 0), ('history', 'fresh')):
                if v.get(key) != simple:
                    c = copy.deepcopy(sc)
                    c['variants'][i][key] = simple
                    yield c
        if sc.get('corpus'):
            return
        ents = sc['spec']['ents']
        for i in range(len(ents) - 1, -1, -1):
            n = ents[i]['name']
            others = json.dumps([e for j, e in enumerate(ents) if j != i])
            if f'"{n}"' in others:
                continue
            if ents[i]['kind'] in ('lib', 'exe') and sum(1 for e in ents if e['kind'] == ents[i]['kind']) <= 1:
                continue
            c = copy.deepcopy(sc)
            del c['spec']['ents'][i]
            yield c
        for key, simple in (('pkgconfig', False), ('install', False), ('wraps', 0), ('tests', 1), ('cc_checks', False), ('ext_deps', False)):
            if sc['extras'].get(key) != simple:
                c = copy.deepcopy(sc)
                c['extras'][key] = simple
                yield c
        for k in list(sc.get('opts', {})):
            c = copy.deepcopy(sc)
            del c['opts'][k]
            yield c


CHECK = Check()
