"""Shared by C12 and C18: project generation, setup, simulated `meson test` runs."""
from __future__ import annotations

import os
import typing as T

from sim.core import env as E
from sim.core import mesonrun as M
from sim.core.forkrun import forkrun, ChildTimeout, ChildCrashed
from sim.aio.mtest_run import run_mtest

TOP = 'p12'
SUB = 'sub'


def q(s: str) -> str:
    return "'" + s.replace('\\', '\\\\').replace("'", "\\'") + "'"


def test_stmt(t: T.Dict[str, T.Any]) -> str:
    kw = [f"args: [{q(t['id'])}]"]
    if not t.get('parallel', True):
        kw.append('is_parallel: false')
    if t.get('priority', 0):
        kw.append(f"priority: {t['priority']}")
    if t.get('timeout', 30) != 30:
        kw.append(f"timeout: {t['timeout']}")
    if t.get('should_fail'):
        kw.append('should_fail: true')
    if t.get('expected_exitcode'):
        kw.append(f"expected_exitcode: {t['expected_exitcode']}")
    if t.get('suites'):
        kw.append('suite: [' + ', '.join(q(s) for s in t['suites']) + ']')
    if t.get('protocol', 'exitcode') != 'exitcode':
        kw.append(f"protocol: {q(t['protocol'])}")
    if t.get('env'):
        kw.append('env: [' + ', '.join(q(e) for e in t['env']) + ']')
    return f"test({q(t['name'])}, sh, {', '.join(kw)})\n"


def write_project(root: str, tests: T.Sequence[T.Dict[str, T.Any]], setups: T.Sequence[T.Dict[str, T.Any]] = (),
                  top_raw: T.Optional[str] = None) -> T.Tuple[str, str]:
    sd = os.path.join(root, 'src')
    bd = os.path.join(root, 'bd')
    os.makedirs(sd)
    top = [f"project({q(top_raw or TOP)}, meson_version: '>=1.0.0')\n", "sh = find_program('sh')\n"]
    for su in setups:
        kw = []
        if su.get('tmult') is not None:
            kw.append(f"timeout_multiplier: {su['tmult']}")
        if su.get('exclude_suites'):
            kw.append('exclude_suites: [' + ', '.join(q(x) for x in su['exclude_suites']) + ']')
        if su.get('env'):
            kw.append('env: [' + ', '.join(q(x) for x in su['env']) + ']')
        top.append(f"add_test_setup({q(su['name'])}{''.join(', ' + x for x in kw)})\n")
    sub = [f"project({q(SUB)})\n", "sh = find_program('sh')\n"]
    have_sub = False
    subproject_emitted = False
    for t in tests:
        if t['proj'] == SUB:
            have_sub = True
            sub.append(test_stmt(t))
            if not subproject_emitted:
                top.append(f"subproject({q(SUB)})\n")
                subproject_emitted = True
        else:
            top.append(test_stmt(t))
    with open(os.path.join(sd, 'meson.build'), 'w') as f:
        f.write(''.join(top))
    if have_sub:
        d = os.path.join(sd, 'subprojects', SUB)
        os.makedirs(d)
        with open(os.path.join(d, 'meson.build'), 'w') as f:
            f.write(''.join(sub))
    return sd, bd


def setup(root: str, sd: str, bd: str) -> T.Dict[str, T.Any]:
    return M.meson(['setup', '--backend=none', bd, sd], capture=os.path.join(root, 'setup.log'), timeout=120)


def list_tests(root: str, bd: str, sel_args: T.List[str], tag: str) -> T.Dict[str, T.Any]:
    def body() -> int:
        E.use_tree()
        from mesonbuild import mtest
        return mtest.run_with_args(['-C', bd, '--list'] + sel_args)
    return forkrun(body, capture=os.path.join(root, f'list-{tag}.log'), timeout=60, env=M.clean_env())


def sim_run(root: str, bd: str, argv: T.List[str], simparams: T.Dict[str, T.Any],
            scripts: T.Dict[str, T.Any], tag: str, timeout: float = 120.0, logbase: str = 'testlog',
            extra_env: T.Optional[T.Dict[str, str]] = None) -> T.Dict[str, T.Any]:
    return forkrun(run_mtest, bd, argv, simparams, scripts, logbase, capture=os.path.join(root, f'run-{tag}.log'),
                   timeout=timeout, env=M.clean_env(extra_env))


def jobs_env(run: T.Dict[str, T.Any]) -> T.Dict[str, str]:
    """The documented ways to ask for N jobs besides the command line (Unit-tests.md): MESON_TESTTHREADS,
    MESON_NUM_PROCESSES (prevails when both are set)."""
    via = run.get('jvia', 'arg')
    if via == 'testthreads':
        return {'MESON_TESTTHREADS': str(run['j'])}
    if via == 'numproc':
        return {'MESON_NUM_PROCESSES': str(run['j'])}
    if via == 'both':
        return {'MESON_TESTTHREADS': str(run['j'] + 3), 'MESON_NUM_PROCESSES': str(run['j'])}
    return {}


def selection_args(run: T.Dict[str, T.Any]) -> T.List[str]:
    a: T.List[str] = []
    raw, tid = run.get('top_raw'), run.get('top_id')

    def by_name(s_: str) -> str:
        # suites are spoken of by their (sanitised) prefix, tests and setups by the project's name
        return raw + s_[len(tid):] if raw and tid and s_.startswith(tid + ':') else s_
    if run.get('setup'):
        a += ['--setup', f"{raw or TOP}:{run['setup']}"]
    for s in run.get('suites') or []:
        a += ['--suite', s]
    for s in run.get('nosuites') or []:
        a += ['--no-suite', s]
    for s in run.get('exclude') or []:
        a += ['--exclude', by_name(s)]
    a += [by_name(s) for s in run.get('names') or []]
    return a


def run_args(bd: str, run: T.Dict[str, T.Any]) -> T.List[str]:
    via = run.get('jvia', 'arg')
    a = ['-C', bd] + (['--num-processes', str(run['j'])] if via == 'arg' else ['-j', str(run['j'])] if via == 'short' else [])
    if run.get('repeat', 1) != 1:
        a += ['--repeat', str(run['repeat'])]
    if run.get('maxfail', 0):
        a += ['--maxfail', str(run['maxfail'])]
    if run.get('tmult') is not None:
        a += ['-t', repr(run['tmult'])]
    if run.get('nosplit'):
        a += ['--no-stdsplit']
    if run.get('slice'):
        a += ['--slice', f"{run['slice'][0]}/{run['slice'][1]}"]
    if run.get('verbose'):
        a += ['-v']
    if run.get('quiet'):
        a += ['-q']
    if run.get('errorlogs'):
        a += ['--print-errorlogs']
    a += selection_args(run)
    return a


class ProcView:
    """What the simulator saw of one child."""
    def __init__(self, pid: int, ident: T.List[T.Any], spawn_seq: int, spawn_t: float, fds: T.Sequence[int] = ()) -> None:
        self.pid = pid
        self.fds = list(fds)
        self.tid = ident[0]
        self.it = ident[1]
        self.spawn_seq = spawn_seq
        self.spawn_t = spawn_t
        self.exit_seq: T.Optional[int] = None
        self.exit_t: T.Optional[float] = None
        self.rc: T.Optional[int] = None
        self.signals: T.List[T.Tuple[float, int, str]] = []
        self.eof_t: T.Dict[int, float] = {}

    @property
    def close_t(self) -> T.Optional[float]:
        """When the harness had nothing left to wait for: exit and EOF on every
        pipe; None if a pipe was still open when the run ended (then the harness
        was legitimately waiting until it gave up on the test)."""
        if self.exit_t is None or any(fd not in self.eof_t for fd in self.fds):
            return None
        return max([self.exit_t] + list(self.eof_t.values()))


def proc_views(events: T.Sequence[T.Dict[str, T.Any]]) -> T.Dict[int, ProcView]:
    pv: T.Dict[int, ProcView] = {}
    for e in events:
        k = e['kind']
        if k == 'spawn':
            pv[e['pid']] = ProcView(e['pid'], e['ident'], e['seq'], e['t'], e.get('fds', ()))
        elif k == 'exit':
            v = pv[e['pid']]
            v.exit_seq, v.exit_t, v.rc = e['seq'], e['t'], e['rc']
        elif k == 'signal':
            pv[e['pid']].signals.append((e['t'], e['sig'], e['via']))
        elif k == 'eof':
            pv[e['pid']].eof_t[e['fd']] = e['t']
    return pv


def idle_time(pv: T.Dict[int, ProcView], end_time: float) -> float:
    def end_of(v: ProcView) -> float:
        if v.close_t is not None:
            return v.close_t
        if v.signals:
            # harness is inside its kill sequence (0.5 + 1 + 1 s of grace at most)
            return min(end_time, max(s[0] for s in v.signals) + 2.6)
        return end_time
    iv = sorted((v.spawn_t, end_of(v)) for v in pv.values())
    busy = 0.0
    cur_s: T.Optional[float] = None
    cur_e = 0.0
    for s, e in iv:
        if cur_s is None:
            cur_s, cur_e = s, e
        elif s <= cur_e:
            cur_e = max(cur_e, e)
        else:
            busy += cur_e - cur_s
            cur_s, cur_e = s, e
    if cur_s is not None:
        busy += cur_e - cur_s
    last = max([e for _, e in iv], default=0.0)
    return max(0.0, max(end_time, last) - busy) if iv else end_time
