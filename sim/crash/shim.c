/* LD_PRELOAD interposer: numbers every file-system mutation the *main* process
 * issues beneath VSHIM_ROOT, appends it to VSHIM_TRACE and kills the process
 * (SIGKILL, no unwinding, no atexit) at mutation number VSHIM_CRASH_AT --
 * before the call, or, for write()-family calls with VSHIM_TORN=1, after
 * applying the first half of the data (torn write).
 *
 * Crash model = "the process is killed": every libc call completed before the
 * kill is on disk, user-space buffers are lost, nothing afterwards happens.
 */
#define _GNU_SOURCE
#include <dlfcn.h>
#include <errno.h>
#include <fcntl.h>
#include <limits.h>
#include <signal.h>
#include <stdarg.h>
#include <stdio.h>
#include <stdlib.h>
#include <string.h>
#include <sys/stat.h>
#include <sys/syscall.h>
#include <sys/types.h>
#include <sys/uio.h>
#include <unistd.h>

#define MAXFD 4096

static int g_active = 0;
static int g_inited = 0;
static long g_count = 0;
static long g_crash_at = -1;
static int g_torn = 0;
static int g_trace_fd = -1;
static char g_root[PATH_MAX];
static size_t g_rootlen = 0;
static char *g_fdpath[MAXFD];
static __thread int g_inside = 0;

#define REAL(name) static __typeof__(name) *real_##name; if (!real_##name) real_##name = dlsym(RTLD_NEXT, #name)

static void shim_init(void) {
    if (g_inited) return;
    g_inited = 1;
    const char *root = getenv("VSHIM_ROOT");
    const char *mp = getenv("VSHIM_MAINPID");
    char buf[64];
    if (!root || !*root) return;
    if (!mp || !*mp) {
        snprintf(buf, sizeof buf, "%d", (int)getpid());
        setenv("VSHIM_MAINPID", buf, 1);
    } else if (atoi(mp) != (int)getpid()) {
        return;                     /* a child process: pass everything through */
    }
    strncpy(g_root, root, sizeof g_root - 1);
    g_rootlen = strlen(g_root);
    const char *ca = getenv("VSHIM_CRASH_AT");
    if (ca && *ca) g_crash_at = atol(ca);
    const char *tn = getenv("VSHIM_TORN");
    g_torn = tn && *tn == '1';
    const char *tr = getenv("VSHIM_TRACE");
    if (tr && *tr) {
        g_trace_fd = (int)syscall(SYS_openat, AT_FDCWD, tr, O_WRONLY | O_CREAT | O_APPEND | O_CLOEXEC, 0644);
    }
    g_active = 1;
}

__attribute__((constructor)) static void shim_ctor(void) { shim_init(); }

static int under_root(const char *p) {
    if (!p || strncmp(p, g_root, g_rootlen) != 0) return 0;
    return p[g_rootlen] == '/' || p[g_rootlen] == 0;
}

/* resolve (dirfd, path) to an absolute path without touching the target */
static const char *resolve(int dirfd, const char *path, char *out) {
    if (!path) return NULL;
    if (path[0] == '/') { strncpy(out, path, PATH_MAX - 1); out[PATH_MAX - 1] = 0; return out; }
    char base[PATH_MAX];
    if (dirfd == AT_FDCWD) {
        if (!getcwd(base, sizeof base)) return NULL;
    } else {
        char link[64];
        snprintf(link, sizeof link, "/proc/self/fd/%d", dirfd);
        ssize_t n = readlink(link, base, sizeof base - 1);
        if (n <= 0) return NULL;
        base[n] = 0;
    }
    snprintf(out, PATH_MAX, "%s/%s", base, path);
    return out;
}

static void die_now(void) {
    syscall(SYS_kill, (int)getpid(), SIGKILL);
    for (;;) pause();
}

/* returns 1 if the process must die *before* performing the call;
 * 2 if it must perform a torn version first (write-family only) */
static int mutation(const char *op, const char *path, const char *path2, long nbytes) {
    long k = ++g_count;
    if (g_trace_fd >= 0) {
        char line[2 * PATH_MAX + 128];
        int n = snprintf(line, sizeof line, "%ld\t%s\t%s\t%s\t%ld\n", k, op, path ? path : "", path2 ? path2 : "", nbytes);
        if (n > 0) syscall(SYS_write, g_trace_fd, line, (size_t)n);
    }
    if (g_crash_at > 0 && k == g_crash_at) {
        if (g_torn && nbytes > 1) return 2;
        die_now();
    }
    return 0;
}

static void track_fd(int fd, const char *abs) {
    if (fd >= 0 && fd < MAXFD) {
        free(g_fdpath[fd]);
        g_fdpath[fd] = strdup(abs);
    }
}

static const char *fd_tracked(int fd) {
    if (fd >= 0 && fd < MAXFD) return g_fdpath[fd];
    return NULL;
}

#define WRITE_FLAGS (O_WRONLY | O_RDWR | O_CREAT | O_TRUNC | O_APPEND)

static int open_common(int dirfd, const char *path, int flags, mode_t mode, int which) {
    REAL(openat);
    int tracked = 0;
    char abs[PATH_MAX];
    if (g_active && !g_inside && (flags & WRITE_FLAGS)) {
        const char *a = resolve(dirfd, path, abs);
        if (a && under_root(a)) {
            g_inside = 1;
            struct stat st;
            int exists = (stat(a, &st) == 0);
            const char *op = (flags & O_TRUNC) && exists ? "open-trunc" : (!exists && (flags & O_CREAT) ? "open-create" : "open-write");
            mutation(op, a, NULL, 0);
            g_inside = 0;
            tracked = 1;
        }
    }
    int fd = real_openat(dirfd, path, flags, mode);
    if (tracked && fd >= 0) track_fd(fd, abs);
    (void)which;
    return fd;
}

int open(const char *path, int flags, ...) {
    mode_t mode = 0;
    if (flags & (O_CREAT | O_TMPFILE)) { va_list ap; va_start(ap, flags); mode = va_arg(ap, mode_t); va_end(ap); }
    return open_common(AT_FDCWD, path, flags, mode, 0);
}
int open64(const char *path, int flags, ...) {
    mode_t mode = 0;
    if (flags & (O_CREAT | O_TMPFILE)) { va_list ap; va_start(ap, flags); mode = va_arg(ap, mode_t); va_end(ap); }
    return open_common(AT_FDCWD, path, flags | O_LARGEFILE, mode, 1);
}
int openat(int dirfd, const char *path, int flags, ...) {
    mode_t mode = 0;
    if (flags & (O_CREAT | O_TMPFILE)) { va_list ap; va_start(ap, flags); mode = va_arg(ap, mode_t); va_end(ap); }
    return open_common(dirfd, path, flags, mode, 2);
}
int openat64(int dirfd, const char *path, int flags, ...) {
    mode_t mode = 0;
    if (flags & (O_CREAT | O_TMPFILE)) { va_list ap; va_start(ap, flags); mode = va_arg(ap, mode_t); va_end(ap); }
    return open_common(dirfd, path, flags | O_LARGEFILE, mode, 3);
}
int creat(const char *path, mode_t mode) { return open_common(AT_FDCWD, path, O_CREAT | O_WRONLY | O_TRUNC, mode, 4); }
int creat64(const char *path, mode_t mode) { return open_common(AT_FDCWD, path, O_CREAT | O_WRONLY | O_TRUNC | O_LARGEFILE, mode, 5); }

int close(int fd) {
    REAL(close);
    if (fd >= 0 && fd < MAXFD && g_fdpath[fd]) { free(g_fdpath[fd]); g_fdpath[fd] = NULL; }
    return real_close(fd);
}

ssize_t write(int fd, const void *buf, size_t n) {
    REAL(write);
    const char *p;
    if (g_active && !g_inside && (p = fd_tracked(fd))) {
        if (mutation("write", p, NULL, (long)n) == 2) { real_write(fd, buf, n / 2); die_now(); }
    }
    return real_write(fd, buf, n);
}
ssize_t pwrite(int fd, const void *buf, size_t n, off_t off) {
    REAL(pwrite);
    const char *p;
    if (g_active && !g_inside && (p = fd_tracked(fd))) {
        if (mutation("pwrite", p, NULL, (long)n) == 2) { real_pwrite(fd, buf, n / 2, off); die_now(); }
    }
    return real_pwrite(fd, buf, n, off);
}
ssize_t pwrite64(int fd, const void *buf, size_t n, off64_t off) {
    REAL(pwrite64);
    const char *p;
    if (g_active && !g_inside && (p = fd_tracked(fd))) {
        if (mutation("pwrite", p, NULL, (long)n) == 2) { real_pwrite64(fd, buf, n / 2, off); die_now(); }
    }
    return real_pwrite64(fd, buf, n, off);
}
ssize_t writev(int fd, const struct iovec *iov, int cnt) {
    REAL(writev);
    const char *p;
    if (g_active && !g_inside && (p = fd_tracked(fd))) {
        long tot = 0; for (int i = 0; i < cnt; i++) tot += (long)iov[i].iov_len;
        if (mutation("writev", p, NULL, tot) == 2) { REAL(write); if (cnt > 0) real_write(fd, iov[0].iov_base, iov[0].iov_len / 2); die_now(); }
    }
    return real_writev(fd, iov, cnt);
}
ssize_t sendfile(int out, int in, off_t *off, size_t n) {
    static ssize_t (*real_sf)(int, int, off_t *, size_t);
    if (!real_sf) real_sf = dlsym(RTLD_NEXT, "sendfile");
    const char *p;
    if (g_active && !g_inside && (p = fd_tracked(out))) {
        if (mutation("sendfile", p, NULL, (long)n) == 2) { real_sf(out, in, off, 1 + n / 4096); die_now(); }
    }
    return real_sf(out, in, off, n);
}
ssize_t sendfile64(int out, int in, off64_t *off, size_t n) {
    static ssize_t (*real_sf)(int, int, off64_t *, size_t);
    if (!real_sf) real_sf = dlsym(RTLD_NEXT, "sendfile64");
    const char *p;
    if (g_active && !g_inside && (p = fd_tracked(out))) {
        if (mutation("sendfile", p, NULL, (long)n) == 2) { real_sf(out, in, off, 1 + n / 4096); die_now(); }
    }
    return real_sf(out, in, off, n);
}
ssize_t copy_file_range(int in, off64_t *oin, int out, off64_t *oout, size_t n, unsigned int fl) {
    static ssize_t (*real_cfr)(int, off64_t *, int, off64_t *, size_t, unsigned int);
    if (!real_cfr) real_cfr = dlsym(RTLD_NEXT, "copy_file_range");
    const char *p;
    if (g_active && !g_inside && (p = fd_tracked(out))) {
        if (mutation("copy_file_range", p, NULL, (long)n) == 2) { real_cfr(in, oin, out, oout, 1 + n / 4096, fl); die_now(); }
    }
    return real_cfr(in, oin, out, oout, n, fl);
}

int fsync(int fd) { REAL(fsync); const char *p; if (g_active && !g_inside && (p = fd_tracked(fd))) mutation("fsync", p, NULL, 0); return real_fsync(fd); }
int fdatasync(int fd) { REAL(fdatasync); const char *p; if (g_active && !g_inside && (p = fd_tracked(fd))) mutation("fdatasync", p, NULL, 0); return real_fdatasync(fd); }
int ftruncate(int fd, off_t len) { REAL(ftruncate); const char *p; if (g_active && !g_inside && (p = fd_tracked(fd))) mutation("ftruncate", p, NULL, 0); return real_ftruncate(fd, len); }
int ftruncate64(int fd, off64_t len) { REAL(ftruncate64); const char *p; if (g_active && !g_inside && (p = fd_tracked(fd))) mutation("ftruncate", p, NULL, 0); return real_ftruncate64(fd, len); }

static void path_op(const char *op, int dirfd, const char *path) {
    char abs[PATH_MAX];
    if (!g_active || g_inside) return;
    const char *a = resolve(dirfd, path, abs);
    if (a && under_root(a)) mutation(op, a, NULL, 0);
}
static void path2_op(const char *op, int d1, const char *p1, int d2, const char *p2) {
    char a1[PATH_MAX], a2[PATH_MAX];
    if (!g_active || g_inside) return;
    const char *x = resolve(d1, p1, a1);
    const char *y = resolve(d2, p2, a2);
    if ((x && under_root(x)) || (y && under_root(y))) mutation(op, x, y, 0);
}

int truncate(const char *path, off_t len) { REAL(truncate); path_op("truncate", AT_FDCWD, path); return real_truncate(path, len); }
int rename(const char *a, const char *b) { REAL(rename); path2_op("rename", AT_FDCWD, a, AT_FDCWD, b); return real_rename(a, b); }
int renameat(int d1, const char *a, int d2, const char *b) { REAL(renameat); path2_op("rename", d1, a, d2, b); return real_renameat(d1, a, d2, b); }
int renameat2(int d1, const char *a, int d2, const char *b, unsigned int fl) { REAL(renameat2); path2_op("rename", d1, a, d2, b); return real_renameat2(d1, a, d2, b, fl); }
int unlink(const char *p) { REAL(unlink); path_op("unlink", AT_FDCWD, p); return real_unlink(p); }
int unlinkat(int d, const char *p, int fl) { REAL(unlinkat); path_op((fl & AT_REMOVEDIR) ? "rmdir" : "unlink", d, p); return real_unlinkat(d, p, fl); }
int remove(const char *p) { static int (*real_remove)(const char *); if (!real_remove) real_remove = dlsym(RTLD_NEXT, "remove"); path_op("remove", AT_FDCWD, p); return real_remove(p); }
int rmdir(const char *p) { REAL(rmdir); path_op("rmdir", AT_FDCWD, p); return real_rmdir(p); }
int mkdir(const char *p, mode_t m) { REAL(mkdir); path_op("mkdir", AT_FDCWD, p); return real_mkdir(p, m); }
int mkdirat(int d, const char *p, mode_t m) { REAL(mkdirat); path_op("mkdir", d, p); return real_mkdirat(d, p, m); }
int link(const char *a, const char *b) { REAL(link); path2_op("link", AT_FDCWD, a, AT_FDCWD, b); return real_link(a, b); }
int linkat(int d1, const char *a, int d2, const char *b, int fl) { REAL(linkat); path2_op("link", d1, a, d2, b); return real_linkat(d1, a, d2, b, fl); }
int symlink(const char *a, const char *b) { REAL(symlink); path_op("symlink", AT_FDCWD, b); return real_symlink(a, b); }
int symlinkat(const char *a, int d, const char *b) { REAL(symlinkat); path_op("symlink", d, b); return real_symlinkat(a, d, b); }
int chmod(const char *p, mode_t m) { REAL(chmod); path_op("chmod", AT_FDCWD, p); return real_chmod(p, m); }
int fchmodat(int d, const char *p, mode_t m, int fl) { REAL(fchmodat); path_op("chmod", d, p); return real_fchmodat(d, p, m, fl); }
int fchmod(int fd, mode_t m) { REAL(fchmod); const char *p; if (g_active && !g_inside && (p = fd_tracked(fd))) mutation("chmod", p, NULL, 0); return real_fchmod(fd, m); }
int utimensat(int d, const char *p, const struct timespec ts[2], int fl) {
    REAL(utimensat);
    if (p) path_op("utime", d, p);
    return real_utimensat(d, p, ts, fl);
}
