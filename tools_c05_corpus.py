#!/venv/bin/python
"""Computes checks/c05_corpus_ok.txt: the projects of `test cases/common` that configure here, build under the
reference executor in declaration order AND satisfy every C05 oracle on the current tree. Projects that do not are listed with
the reason in checks/c05_corpus_excluded.txt and have to be triaged by hand before they may be added."""
import concurrent.futures as cf, multiprocessing as mp, os, sys, json
HERE = os.path.dirname(os.path.abspath(__file__)); sys.path.insert(0, HERE)
os.environ.setdefault('PYTHONHASHSEED', '0')
from sim.core import env as E
E.use_tree()
from checks.c05 import CHECK
def one(name):
    sc = {'kind': 'c05', 'corpus': name, 'policies': ['reverse', 'consumers-first', 'generators-last', 'random:1'], 'hermetic': True}
    try:
        out = CHECK.run(sc)
    except Exception as e:
        return name, 'harness-exception', repr(e)[:200]
    if out['status'] == 'ok':
        if out.get('summary', {}).get('skipped'):
            return name, 'skipped', str(out['summary'].get('skipped')) + ': ' + str(out['summary'].get('why', ''))[-160:].replace('\n', ' ')
        return name, 'ok', f"edges={out['summary'].get('edges')}"
    return name, out['status'] + ':' + out.get('vclass', ''), str(out.get('detail'))[:300].replace('\n', ' ')
if __name__ == '__main__':
    CHECK.prepare('thorough')
    base = os.path.join(E.repo_dir(), 'test cases', 'common')
    names = sorted(os.listdir(base)) if len(sys.argv) < 2 else sys.argv[1:]
    with cf.ProcessPoolExecutor(max_workers=14, mp_context=mp.get_context('fork')) as ex:
        res = list(ex.map(one, names))
    ok = [n for n, st, _ in res if st == 'ok']
    if len(sys.argv) >= 2:
        print(res)
        sys.exit(0)
    with open(os.path.join(HERE, 'checks', 'c05_corpus_ok.txt'), 'w') as f:
        f.write('# projects of test cases/common that pass every C05 oracle on the tree as of tools_c05_corpus.py\n' + '\n'.join(ok) + '\n')
    with open(os.path.join(HERE, 'checks', 'c05_corpus_excluded.txt'), 'w') as f:
        for n, st, why in res:
            if st != 'ok':
                f.write(f'{n}\t{st}\t{why}\n')
    print(len(ok), 'ok of', len(names))
    from collections import Counter
    print(Counter(st for _, st, _ in res))
