"""C18 - TAP streams are interpreted per the TAP specification.

Runs on the C12 simulator: the TAP producer is a scripted child process whose
byte stream is chunked, delayed, interleaved with stderr, cut at an arbitrary
byte (crash / kill / timeout) and followed by an independent exit status.  The
oracle is the reference interpretation (models/tap_ref.py) of the prefix that
was actually delivered.
"""
from __future__ import annotations

import base64
import copy
import os
import random
import typing as T
import xml.etree.ElementTree as ET

from sim.core import env as E
from sim.core import prng
from sim.core import runner as R
from sim.core.forkrun import forkrun, ChildTimeout, ChildCrashed
from sim.core import mesonrun as M
from models import tap_ref
from models import mtest_ref as MR
from . import mtest_common as C


def direct_parse(streams: T.Dict[str, bytes]) -> T.Dict[str, T.Any]:
    """Observation point `list(TAPParser().parse(lines))` on exactly the delivered
    bytes, with per-line attribution (the generator pulls lines lazily)."""
    E.use_tree()
    from mesonbuild import mtest
    out: T.Dict[str, T.Any] = {}
    for tid, data in streams.items():
        raw_lines = data.split(b'\n')
        lines_b = [l + b'\n' for l in raw_lines[:-1]]
        if raw_lines[-1] != b'':
            lines_b.append(raw_lines[-1])
        lines = [mtest.decode(l).replace('\r\n', '\n') for l in lines_b]
        cur = {'i': -1}

        def it() -> T.Iterator[str]:
            for i, l in enumerate(lines):
                cur['i'] = i
                yield l
            cur['i'] = len(lines)
        per: T.List[T.List[T.Any]] = [[] for _ in range(len(lines) + 1)]
        lazy = True
        for ev in mtest.TAPParser().parse(it()):
            idx = cur['i'] if cur['i'] >= 0 else 0
            name = type(ev).__name__
            if name == 'Test':
                per[idx].append(['Test', ev.number, ev.name, ev.result.value])
            elif name in ('Error', 'Bailout'):
                per[idx].append([name, ev.message])
            elif name == 'Plan':
                per[idx].append(['Plan', ev.num_tests, ev.late, ev.skipped])
            elif name == 'Version':
                per[idx].append(['Version', ev.version])
            else:
                per[idx].append([name])
        out[tid] = {'lines': lines, 'per': per, 'lazy': lazy}
    return out


LINE_FORMS = [
    ('ok', 6), ('notok', 3), ('ok_num', 6), ('notok_num', 3), ('ok_name', 4), ('skip', 3), ('skip_lc', 1), ('todo_fail', 2),
    ('todo_pass', 2), ('skipped_word', 1), ('notok_skip', 1), ('unknown_directive', 1), ('dup_num', 1), ('jump_num', 1), ('out_of_order', 2),
    ('diag', 3), ('diag_bare', 1), ('blank', 2), ('spaces', 1), ('yaml', 3), ('yaml_unterminated', 1), ('yaml_broken', 1),
    ('yaml_tab', 1), ('bail', 1), ('bail_reason', 1), ('plan', 2), ('plan_skip0', 1), ('plan_skipn', 1), ('plan_todo', 1),
    ('version_late', 1), ('unknown', 2), ('indented_ok', 1), ('not_okay', 1), ('half_plan', 1), ('okay', 1),
]


class Check:
    id = 'C18'
    level = 'exploration'
    quick_n = 1500
    thorough_budget_s = 900
    scenario_wall_limit = 240.0
    shrink_runs = 300
    rule = ('scenario = 1-4 `protocol: tap` tests whose scripted producer emits a line sequence over the TAP alphabet (or arbitrary bytes), '
            'delivered through simulated pipes in PRNG-chosen chunks (boundaries inside lines and inside CRLF), with delays, stderr '
            'interleaving, EOF-vs-exit order, a cut at an arbitrary byte offset (crash/kill), exit status 0/non-zero/signal and '
            'timeouts mid-stream. Non-trivial when the delivered stream has >=2 TAP lines and >=1 chunk boundary inside a line, or '
            'was cut by EOF/kill/timeout. Distinct by hash of (line-kind sequence of the reference, cut?, exit class).')
    interleaving_measure = 'hash of (reference line kinds of the delivered prefix, cut flag, exit class, chunk count) per TAP stream'
    engine_desc = {
        'real': ['mesonbuild.mtest: read_decode, queue_iter, TAPParser.parse_async/parse, TestRunTAP.parse/complete, JunitBuilder, JsonLogfileBuilder',
                 'asyncio StreamReader (64 KiB limit, flow control), SubprocessStreamProtocol, BaseSubprocessTransport'],
        'stub': ['event loop selector + clock', 'child processes, pipes, chunking', 'os.killpg, time.time'],
    }
    assumptions = [
        'lines are delimited by \\n; a final unterminated fragment is a line (as any line-oriented reader sees it)',
        'forms the TAP documents leave open (okay, ok1x, TODO:, SKIP plan with count>0, missing plan, "...x" inside YAML) are marked undecided by the reference and nothing is demanded on them',
        'junit cannot distinguish OK from EXPECTEDFAIL subtests; that distinction is checked on the direct parse of the same delivered bytes',
    ]

    def prepare(self, tier: str) -> None:
        M.warm()

    # ------------------------------------------------------------------ generation
    def gen_lines(self, rng: random.Random, sw: T.Dict[str, T.Any]) -> T.List[str]:
        lines: T.List[str] = []
        n = rng.randint(0, sw['max_tests'])
        version = rng.choice([None, None, 13, 13, 14, 12])
        if version is not None:
            lines.append(f'TAP version {version}')
        plan_pos = rng.choice(['early', 'early', 'late', 'none', 'middle'])
        plan_n = n if rng.random() < 0.7 else max(0, n + rng.choice([-2, -1, 1, 3]))
        if plan_pos == 'early':
            lines.append(f'1..{plan_n}')
        num = 0
        forms = [f for f, _ in LINE_FORMS]
        weights = [w * (sw['noise'] if f not in ('ok', 'notok', 'ok_num', 'notok_num', 'ok_name') else 1.0) for f, w in LINE_FORMS]
        count = 0
        guard = 0
        while count < n and guard < 60:
            guard += 1
            before_count = count
            f = rng.choices(forms, weights)[0]
            nxt = num + 1
            if f == 'ok':
                lines.append('ok'); num = nxt; count += 1
            elif f == 'notok':
                lines.append('not ok'); num = nxt; count += 1
            elif f == 'ok_num':
                lines.append(f'ok {nxt}'); num = nxt; count += 1
            elif f == 'notok_num':
                lines.append(f'not ok {nxt}'); num = nxt; count += 1
            elif f == 'ok_name':
                lines.append(rng.choice([f'ok {nxt} - thing {nxt}', f'ok {nxt} name with spaces', f'not ok {nxt} - broken', f'ok - no number'])); num = nxt; count += 1
            elif f == 'skip':
                lines.append(rng.choice([f'ok {nxt} # SKIP no reason', f'ok {nxt} - nm # SKIP', f'ok # SKIP'])); num = nxt; count += 1
            elif f == 'skip_lc':
                lines.append(f'ok {nxt} # skip lowercase'); num = nxt; count += 1
            elif f == 'todo_fail':
                lines.append(rng.choice([f'not ok {nxt} # TODO later', f'not ok {nxt} - nm # todo'])); num = nxt; count += 1
            elif f == 'todo_pass':
                lines.append(f'ok {nxt} # TODO surprisingly'); num = nxt; count += 1
            elif f == 'skipped_word':
                lines.append(f'ok {nxt} # Skipped: because'); num = nxt; count += 1
            elif f == 'notok_skip':
                lines.append(f'not ok {nxt} # SKIP but failed'); num = nxt; count += 1
            elif f == 'unknown_directive':
                lines.append(f'ok {nxt} - nm # FIXME whatever'); num = nxt; count += 1
            elif f == 'dup_num':
                if num >= 1:
                    lines.append(f'ok {num}'); count += 1
            elif f == 'out_of_order':
                lines.append(f'ok {nxt + 1}')
                lines.append(f'ok {nxt} - arrived late')
                num = nxt + 1; count += 2
            elif f == 'jump_num':
                j = nxt + rng.choice([1, 2, 5])
                lines.append(f'ok {j}'); num = j; count += 1
            elif f == 'diag':
                lines.append(rng.choice(['# a diagnostic', '# ok 5', '#not ok', '# 1..3', '# Bail out!']))
            elif f == 'diag_bare':
                lines.append('#')
            elif f == 'blank':
                lines.append('')
            elif f == 'spaces':
                lines.append('   ')
            elif f in ('yaml', 'yaml_unterminated', 'yaml_broken', 'yaml_tab'):
                ind = '\t' if f == 'yaml_tab' else rng.choice(['  ', '    '])
                lines.append(f'ok {nxt}'); num = nxt; count += 1
                lines.append(f'{ind}---')
                for _ in range(rng.randint(0, 3)):
                    lines.append(ind + rng.choice(['message: "x"', 'severity: fail', '  nested: 1', 'ok 9', '1..4', '# c']))
                if f == 'yaml_broken':
                    lines.append(rng.choice(['unindented text', f'ok {num + 1}', '# diag']))
                    if lines[-1].startswith('ok '):
                        num += 1; count += 1
                elif f != 'yaml_unterminated':
                    lines.append(f'{ind}...')
            elif f == 'bail':
                lines.append('Bail out!')
            elif f == 'bail_reason':
                lines.append('Bail out! the roof is on fire')
            elif f == 'plan':
                lines.append(f'1..{rng.randint(0, 5)}')
            elif f == 'plan_skip0':
                lines.append('1..0 # SKIP nothing to do')
            elif f == 'plan_skipn':
                lines.append('1..3 # SKIP odd')
            elif f == 'plan_todo':
                lines.append('1..2 # TODO odd')
            elif f == 'version_late':
                lines.append('TAP version 13')
            elif f == 'unknown':
                lines.append(rng.choice(['hello world', 'PASS: foo', 'ok-ish?' if False else 'Ok 1', 'NOT OK 2', 'tap version 13', '...', '---']))
            elif f == 'indented_ok':
                lines.append('    ok 1 - subtest style')
            elif f == 'not_okay':
                lines.append('notok 3')
            elif f == 'half_plan':
                lines.append(rng.choice(['1..', '1.', '..3', '1..x']))
            elif f == 'okay':
                lines.append(rng.choice(['okay', 'ok1x', f'ok {nxt} # TODO: colon', f'ok {nxt} # a # SKIP b']))
                num = nxt; count += 1
            # a YAML block may follow *any* kind of test line (plain, SKIP, TODO, numbered or not)
            if count > before_count and f not in ('yaml', 'yaml_unterminated', 'yaml_broken', 'yaml_tab') and rng.random() < sw.get('yaml_after', 0.0):
                ind = rng.choice(['  ', '    ', '\t'])
                lines.append(f'{ind}---')
                for _ in range(rng.randint(0, 2)):
                    lines.append(ind + rng.choice(['message: "x"', 'severity: todo', 'ok 9', '# c']))
                style = rng.choice(['closed', 'closed', 'open', 'broken'])
                if style == 'closed':
                    lines.append(f'{ind}...')
                elif style == 'broken':
                    lines.append(rng.choice(['unindented text', '# diag']))
            if plan_pos == 'middle' and count == max(1, n // 2) and not any(l.startswith('1..') for l in lines):
                lines.append(f'1..{plan_n}')
        if plan_pos == 'late' or (plan_pos == 'middle' and not any(l.startswith('1..') for l in lines)):
            lines.append(f'1..{plan_n}')
            if rng.random() < 0.15:
                lines.append(f'ok {num + 1}')     # test after late plan
        if rng.random() < 0.1:
            lines.append('# trailing diagnostic')
        return lines

    # ---- exhaustive part of the thorough tier: every sequence of <= 4 lines over a 16-form alphabet,
    #      each run through the simulator as the complete output of a producer that exits 0
    ENUM_ALPHABET = ['TAP version 13', '1..2', '1..0 # SKIP', 'ok', 'ok 1', 'ok 2', 'not ok', 'not ok 2', 'ok # SKIP', 'not ok # TODO',
                     'ok 3 # TODO', '# diag', '  ---', '  ...', 'Bail out!', 'junk']
    ENUM_MAXLEN = 4
    ENUM_PER_SCENARIO = 8

    @classmethod
    def n_enum(cls) -> int:
        a = len(cls.ENUM_ALPHABET)
        return sum(a ** k for k in range(1, cls.ENUM_MAXLEN + 1))

    @classmethod
    def enum_stream(cls, k: int) -> T.List[str]:
        a = len(cls.ENUM_ALPHABET)
        n = 1
        while k >= a ** n:
            k -= a ** n
            n += 1
        out = []
        for _ in range(n):
            out.append(cls.ENUM_ALPHABET[k % a])
            k //= a
        return out

    def enum_scenario(self, index: int) -> T.Dict[str, T.Any]:
        tests = []
        scripts: T.Dict[str, T.Any] = {}
        for j in range(self.ENUM_PER_SCENARIO):
            k = index * self.ENUM_PER_SCENARIO + j
            if k >= self.n_enum():
                break
            data = ('\n'.join(self.enum_stream(k)) + '\n').encode()
            tid = f't{j}'
            tests.append({'id': tid, 'name': f'n{j}', 'proj': C.TOP, 'parallel': True, 'priority': 0, 'timeout': 30, 'should_fail': False, 'suites': [],
                          'protocol': 'tap', 'env': [], 'mode': 'tap'})
            scripts[tid] = {'dur': 0.0, 'code': 0, 'out': [[0.0, 1, base64.b64encode(data).decode()]], 'b64': True, 'term': 'die', 'term_delay': 0.0,
                            'kill_delay': 0.0, 'data': base64.b64encode(data).decode(), 'cut': None}
        run = {'j': 4, 'verbose': False, 'errorlogs': False, 'nosplit': False, 'scripts': scripts,
               'sim': {'tie_seed': 1, 'tie_random': False, 'batch': False, 'eager': False, 'coalesce': False, 'rand_seed': 1}}
        return {'kind': 'c18', 'tests': tests, 'run': run, 'enumerated': True}

    def generate(self, rng: random.Random, tier: str, index: int) -> T.Dict[str, T.Any]:
        if tier != 'quick':
            n_sc = (self.n_enum() + self.ENUM_PER_SCENARIO - 1) // self.ENUM_PER_SCENARIO
            if index < n_sc:
                return self.enum_scenario(index)
        sw = {
            'max_tests': rng.choice([2, 4, 8, 20 if tier != 'quick' else 8]),
            'noise': rng.choice([0.0, 0.3, 1.0, 2.5]),
            'cut_p': rng.choice([0.0, 0.2, 0.6]),
            'crlf_p': rng.choice([0.0, 0.0, 0.3]),
            'chunk': rng.choice(['whole', 'lines', 'bytes', 'random', 'random']),
            'arbitrary_p': rng.choice([0.0, 0.0, 0.0, 0.5]),
            'timeout_p': rng.choice([0.0, 0.0, 0.2]),
            'exit_p': rng.choice([0.0, 0.2, 0.5]),
            'yaml_after': rng.choice([0.0, 0.0, 0.3, 0.7]),
        }
        ntests = rng.choice([1, 1, 2, 3, 4])
        rx = prng.derive(prng.base_seed(), 'c18-extra', tier, index)
        tests = []
        scripts: T.Dict[str, T.Any] = {}
        for i in range(ntests):
            tid = f't{i}'
            mode = 'arbitrary' if rng.random() < sw['arbitrary_p'] else 'tap'
            timeout = rng.choice([30, 30, 2, 3])
            t = {'id': tid, 'name': f'n{i}', 'proj': C.TOP, 'parallel': rng.random() < 0.8, 'priority': 0, 'timeout': timeout,
                 'should_fail': False, 'suites': [], 'protocol': 'tap', 'env': [], 'mode': mode}
            tests.append(t)
            if mode == 'tap':
                lines = self.gen_lines(rng, sw)
                text = ''
                for k, l in enumerate(lines):
                    eol = '\r\n' if rng.random() < sw['crlf_p'] else '\n'
                    if k == len(lines) - 1 and rng.random() < 0.15:
                        eol = ''
                    text += l + eol
                data = text.encode('utf-8')
            else:
                kind = rng.choice(['bytes', 'mixed', 'tapish', 'longline', 'nul'])
                if kind == 'bytes':
                    data = bytes(rng.randrange(256) for _ in range(rng.randint(0, 300)))
                elif kind == 'mixed':
                    parts = []
                    for _ in range(rng.randint(1, 12)):
                        parts.append(rng.choice([b'ok 1\n', b'not ok\n', b'1..2\n', b'\xff\xfe\n', b'\xc3\n', b'  ---\n', b'  ...\n', b'Bail out!\n',
                                                 b'TAP version 13\n', b'\r\r\n', b'\x00\n', b'ok \xe2\x9c\x93 unicode\n', b'ok 99999999999999999999999\n',
                                                 b'1..99999999999999999999\n', b'\x1b[31mok\x1b[0m\n', b'ok 1 # SKIP \xff\n', b'\x85---\n']))
                    data = b''.join(parts)
                elif kind == 'tapish':
                    data = ('\n'.join(self.gen_lines(rng, sw)) + '\n').encode().replace(b'ok', rng.choice([b'ok', b'o\xffk', b'OK']))
                elif kind == 'longline':
                    data = b'ok 1 ' + b'x' * rng.choice([70000, 200000]) + rng.choice([b'', b'\n', b'\nok 2\n1..2\n'])
                else:
                    data = b'ok 1\x00\nok 2\n\x00\n1..2\n'
                # (added late, from a stream of its own) digit strings beyond what int() converts without complaint
                if rx.random() < 0.12:
                    nd = rx.choice([4300, 4301, 5000, 70000])
                    data = rx.choice([b'ok %s\n', b'not ok %s - big\n1..1\n', b'1..%s\nok 1\n', b'TAP version %s\nok 1\n1..1\n', b'ok 1\n1..%s\n',
                                      b'TAP version 13\n1..2\nok 1\nok %s # SKIP\n']).replace(b'%s', rx.choice([b'7', b'1', b'90']) * (nd // 1))[:200000]
            # cut
            cut = None
            if data and rng.random() < sw['cut_p']:
                cut = rng.randint(0, len(data))
            # chunking
            total = len(data) if cut is None else cut
            bounds: T.List[int] = []
            if sw['chunk'] == 'whole' or total == 0:
                bounds = [total]
            elif sw['chunk'] == 'bytes' and total <= 200:
                bounds = list(range(1, total + 1))
            elif sw['chunk'] == 'lines':
                pos = 0
                while pos < total:
                    nl = data.find(b'\n', pos, total)
                    pos = total if nl < 0 else nl + 1
                    bounds.append(pos)
            else:
                k = rng.randint(1, min(12, total))
                bounds = sorted(set(rng.randint(1, total) for _ in range(k)) | {total})
            dur = round(rng.uniform(0.0, 1.5), 3)
            teff = float(timeout)
            want_timeout = rng.random() < sw['timeout_p'] and timeout < 30
            if want_timeout:
                dur = round(teff + rng.choice([0.2, 1.0, 10.0]), 3)
            times = sorted(round(rng.uniform(0.0, min(dur, teff + 0.5) if want_timeout else dur), 3) for _ in bounds)
            out: T.List[T.List[T.Any]] = []
            prev = 0
            for b, tt in zip(bounds, times):
                if b > prev:
                    out.append([tt, 1, base64.b64encode(data[prev:b]).decode()])
                prev = b
            for _ in range(rng.choice([0, 0, 1, 3])):
                out.append([round(rng.uniform(0.0, dur), 3), 2, base64.b64encode(rng.choice([b'warning: x\n', b'ok 1\n', b'partial err', b'\xff\n'])).decode()])
            if cut is not None:
                code = rng.choice([-11, -6, 1, 2, 0, 0])
            elif rng.random() < sw['exit_p']:
                code = rng.choice([1, 2, 77, 99, 255, -15])
            else:
                code = 0
            sc: T.Dict[str, T.Any] = {'dur': dur, 'code': code, 'out': out, 'b64': True, 'term': rng.choice(['die', 'die', 'ignore']),
                                      'term_delay': rng.choice([0.0, 0.2]), 'kill_delay': rng.choice([0.0, 0.3]),
                                      'data': base64.b64encode(data).decode(), 'cut': cut}
            if rng.random() < 0.15 and not want_timeout:
                late = round(dur + rng.choice([0.05, 0.4]), 3)
                if late < teff - 0.1:
                    sc['eof'] = {'1': late}
            scripts[tid] = sc
        run = {'j': rng.choice([1, 2, 4]), 'verbose': rng.random() < 0.25, 'errorlogs': rng.random() < 0.2, 'nosplit': rng.random() < 0.3,
               'scripts': scripts,
               'sim': {'tie_seed': rng.randrange(1 << 30), 'tie_random': rng.random() < 0.7, 'batch': rng.random() < 0.3,
                       'eager': rng.random() < 0.3, 'coalesce': rng.random() < 0.4, 'rand_seed': 1}}
        return {'kind': 'c18', 'tests': tests, 'run': run}

    # ------------------------------------------------------------------ execution
    def run(self, sc: T.Dict[str, T.Any]) -> T.Dict[str, T.Any]:
        root = E.mkscratch('c18')
        try:
            return self._run(sc, root)
        except ChildTimeout as e:
            return R.violation('hang-wall', f'child exceeded the wall limit: {e}'[:1500])
        except ChildCrashed as e:
            return R.harness_error(f'child crashed: {e}')
        finally:
            E.rmscratch(root)

    def _run(self, sc: T.Dict[str, T.Any], root: str) -> T.Dict[str, T.Any]:
        tests = sc['tests']
        run = sc['run']
        byid = {t['id']: t for t in tests}
        sd, bd = C.write_project(root, tests)
        r = C.setup(root, sd, bd)
        if not r['ok'] or r['value'] != 0:
            return R.harness_error('setup failed: ' + (r.get('exc') or r['out'])[-2000:])
        scripts = {}
        for tid, s in run['scripts'].items():
            s2 = dict(s)
            s2['out'] = [[o[0], o[1], base64.b64decode(o[2])] for o in s['out']]
            scripts[tid] = s2
        argv = C.run_args(bd, run)
        rr = C.sim_run(root, bd, argv, run['sim'], scripts, '0')
        if not rr['ok']:
            if rr['exc_in_sut']:
                return R.violation('sut-exception', 'meson test raised: ' + rr['exc'][-2500:], 'sut-exception:' + str(rr['exc_type']))
            return R.harness_error('simulated run failed in harness code: ' + str(rr['exc'])[-3000:])
        v = rr['value']
        out_text = rr['out']
        base = dict(faults=dict(v['faults']), probes=dict(v['probes']), sim_time=v['end_time'], steps=v['steps'])
        faults, probes = base['faults'], base['probes']

        def add(d: T.Dict[str, int], k: str, n: int = 1) -> None:
            d[k] = d.get(k, 0) + n
        trace = {'events': v['events'][:200], 'argv': argv}
        if v['outcome'] in ('hang', 'livelock'):
            return R.violation(v['outcome'], v['detail'], v['outcome'], trace=trace, **base)
        if v['outcome'] == 'sysexit':
            return R.violation('sut-exit', f'meson test called sys.exit({v["rc"]!r}): {out_text[-800:]}', 'sut-exit', trace=trace, **base)
        if 'Traceback (most recent call last)' in out_text:
            return R.violation('sut-exception', 'traceback printed: ' + out_text[-2500:], 'sut-exception:printed', trace=trace, **base)
        pv = C.proc_views(v['events'])
        delivered: T.Dict[str, bytes] = {}
        by_tid: T.Dict[str, C.ProcView] = {}
        for p in pv.values():
            by_tid[p.tid] = p
            w = v['written'].get(str(p.pid), {})
            delivered[p.tid] = base64.b64decode(w.get('1', ''))
        dp = forkrun(direct_parse, delivered, capture=os.path.join(root, 'direct.log'), timeout=120, env=M.clean_env())
        if not dp['ok']:
            if dp['exc_in_sut']:
                return R.violation('parser-raised', 'TAPParser().parse raised on delivered bytes: ' + dp['exc'][-2000:], 'parser-raised:' + str(dp['exc_type']),
                                   trace=trace, **base)
            return R.harness_error('direct parse failed: ' + str(dp['exc']))
        direct = dp['value']
        logs = {}
        for ent in v['testlog']:
            logs[ent['command'][-1]] = ent
        junit_cases = self.junit_subtests(v.get('junit'))
        keys: T.List[str] = []
        nontrivial = False
        summaries = []
        for tid, p in sorted(by_tid.items()):
            t = byid[tid]
            s = run['scripts'][tid]
            ent = logs.get(tid)
            if ent is None:
                return R.violation('not-logged', f'TAP test {tid} ran but has no testlog entry', 'not-logged', trace=trace, **base)
            got = ent['result']
            d = direct[tid]
            lines = d['lines']
            timed_out = bool(p.signals)
            if timed_out:
                add(faults, 'timeout-mid-stream')
            if s.get('cut') is not None:
                add(faults, 'stream-cut')
            if p.rc not in (0, None):
                add(faults, 'nonzero-exit')
            ref = tap_ref.interpret(lines)
            d_tests = [e for per in d['per'] for e in per if e[0] == 'Test']
            d_errs = sum(1 for per in d['per'] for e in per if e[0] in ('Error', 'Bailout'))
            detail_ctx = f'test {tid} delivered={delivered[tid][:400]!r} exit={p.rc}'
            if t['mode'] == 'tap':
                # (b) events vs reference, line by line
                for i, (rl, per) in enumerate(zip(ref, d['per'])):
                    gt = [e[1:] for e in per if e[0] == 'Test']
                    ne = sum(1 for e in per if e[0] in ('Error', 'Bailout'))
                    ln = repr(lines[i]) if i < len(lines) else '<EOF>'
                    if rl.kind != 'test?':
                        want_t = [list(rl.test)] if rl.test is not None else []
                        if gt != want_t:
                            return R.violation('tap-subtest', f'line {i + 1} {ln}: meson derived subtests {gt}, TAP reference {want_t}; {detail_ctx}',
                                               f'tap-subtest:{rl.kind}', trace=trace, **base)
                    if rl.err == 'must' and ne == 0:
                        return R.violation('tap-missing-error', f'line {i + 1} {ln}: reference requires an error/bail-out event ({rl.why}), meson produced {per}; {detail_ctx}',
                                           f'tap-missing-error:{rl.why.split(";")[0].split(",")[0]}', trace=trace, **base)
                    if rl.err == 'no' and ne > 0:
                        return R.violation('tap-spurious-error', f'line {i + 1} {ln}: meson produced {per} where the stream is valid TAP; {detail_ctx}',
                                           f'tap-spurious-error:{rl.kind}', trace=trace, **base)
            # (a) chunking / timing invariance: the streamed run saw the same subtests
            if junit_cases is None:
                add(probes, 'junit-unparsable')
            elif not timed_out and t['mode'] == 'tap':
                jc = junit_cases.get(f"{t['proj']}.{MR.pretty_name(t)}")
                want_cases = [(f'{e[1]} {e[2]}'.strip(), self.cat(e[3])) for e in d_tests]
                if want_cases:
                    if jc is None:
                        return R.violation('stream-variance', f'streamed run recorded no subtests, direct parse of the same bytes gives {want_cases[:6]}; {detail_ctx}',
                                           'stream-variance', trace=trace, **base)
                    if jc != want_cases:
                        return R.violation('stream-variance', f'streamed run recorded subtests {jc[:8]}, direct parse of the same delivered bytes gives {want_cases[:8]}; {detail_ctx}',
                                           'stream-variance', trace=trace, **base)
            # (c) verdict
            exit_nonzero = p.rc not in (0, None)
            if t['mode'] == 'tap':
                vb = tap_ref.verdict_bad(ref, exit_nonzero, timed_out)
            else:
                # arbitrary bytes: consistency with meson's own events only
                bad_evt = d_errs > 0 or any(e[3] in ('FAIL', 'UNEXPECTEDPASS') for e in d_tests)
                vb = True if (bad_evt or exit_nonzero or timed_out) else False
            if vb is not None and vb != (got in MR.BAD):
                return R.violation('tap-verdict', f'TAP test reported {got} but must {"" if vb else "not "}be bad '
                                   f'(exit {p.rc}, timed_out={timed_out}, errors={d_errs}, subtests={[e[3] for e in d_tests][:10]}); {detail_ctx}',
                                   f'tap-verdict:{"bad" if vb else "good"}->{got}', trace=trace, **base)
            kinds = [rl.kind for rl in ref]
            nchunks = len([o for o in s['out'] if o[1] == 1])
            inside = self.boundary_inside_line(s, delivered[tid])
            ntap = sum(1 for k in kinds if k in ('test', 'plan', 'version', 'bail', 'yaml'))
            if (ntap >= 2 and inside) or s.get('cut') is not None or timed_out:
                nontrivial = True
            if inside:
                add(probes, 'chunk-boundary-inside-line')
            if any(k == 'yaml' for k in kinds):
                add(probes, 'yaml-block')
            if ref[-1].err == 'must' and 'yaml' in ref[-1].why:
                add(probes, 'eof-inside-yaml')
            keys.append(prng.short([kinds, s.get('cut') is not None, 'sig' if (p.rc or 0) < 0 else ('nz' if p.rc else 'z'), timed_out]))
            summaries.append({'lines': [l[:40] for l in lines[:12]], 'kinds': kinds[:14], 'result': got, 'exit': p.rc, 'chunks': nchunks})
        # tallies printed must still add up (shared with C12, cheap)
        cons, summ = MR.parse_console(out_text)
        want = MR.tally([logs[t]['result'] for t in logs])
        for k, n in want.items():
            if summ.get(k, 0) != n:
                return R.violation('tally', f'summary {summ} vs testlog tally {want}', 'tally', trace=trace, **base)
        return R.ok(nontrivial=nontrivial, distinct_key=prng.short(keys), distinct_keys=keys if nontrivial else [], interleavings=keys,
                    summary=summaries, trace_digest=prng.digest([v['events'], v['rc'], v['end_time'], [(e['name'], e['result'], e.get('stdout')) for e in v['testlog']]]),
                    **base)

    @staticmethod
    def cat(res: str) -> str:
        return {'SKIP': 'skipped', 'FAIL': 'failure', 'UNEXPECTEDPASS': 'failure', 'ERROR': 'error'}.get(res, 'pass')

    @staticmethod
    def junit_subtests(xml: T.Optional[str]) -> T.Optional[T.Dict[str, T.List[T.Tuple[str, str]]]]:
        out: T.Dict[str, T.List[T.Tuple[str, str]]] = {}
        if not xml:
            return out
        try:
            root = ET.fromstring(xml)
        except ET.ParseError:
            return None  # e.g. a NUL byte of an arbitrary-bytes test in an attribute: not a C18 matter
        for suite in root.iter('testsuite'):
            name = suite.attrib.get('name', '')
            cases = []
            for tc in suite.findall('testcase'):
                if tc.attrib.get('classname') != name:
                    cases = None  # project-level suite, not a TAP suite
                    break
                c = 'pass'
                for ch in tc:
                    if ch.tag in ('skipped', 'failure', 'error'):
                        c = ch.tag
                cases.append((tc.attrib.get('name', ''), c))
            if cases is not None:
                out[name] = cases
        return out

    @staticmethod
    def boundary_inside_line(s: T.Dict[str, T.Any], delivered: bytes) -> bool:
        pos = 0
        for o in sorted((o for o in s['out'] if o[1] == 1), key=lambda o: o[0]):
            pos += len(base64.b64decode(o[2]))
            if 0 < pos < len(delivered) and delivered[pos - 1:pos] != b'\n':
                return True
        return False

    # ------------------------------------------------------------------ shrinking
    def shrink(self, sc: T.Dict[str, T.Any]) -> T.Iterator[T.Dict[str, T.Any]]:
        def rebuild(c: T.Dict[str, T.Any], tid: str, data: bytes, cut: T.Optional[int]) -> None:
            s = c['run']['scripts'][tid]
            s['data'] = base64.b64encode(data).decode()
            s['cut'] = cut
            total = len(data) if cut is None else min(cut, len(data))
            s['out'] = [o for o in s['out'] if o[1] != 1]
            if total:
                s['out'].append([0.0, 1, base64.b64encode(data[:total]).decode()])
        if len(sc['tests']) > 1:
            for i in range(len(sc['tests'])):
                c = copy.deepcopy(sc)
                keep = c['tests'][i]
                c['tests'] = [keep]
                c['run']['scripts'] = {keep['id']: c['run']['scripts'][keep['id']]}
                yield c
        for t in sc['tests']:
            tid = t['id']
            s = sc['run']['scripts'][tid]
            data = base64.b64decode(s['data'])
            cut = s.get('cut')
            eff = data if cut is None else data[:cut]
            # single chunk first
            if len([o for o in s['out'] if o[1] == 1]) > 1:
                c = copy.deepcopy(sc)
                rebuild(c, tid, eff, None)
                yield c
            # drop stderr
            if any(o[1] == 2 for o in s['out']):
                c = copy.deepcopy(sc)
                c['run']['scripts'][tid]['out'] = [o for o in s['out'] if o[1] != 2]
                yield c
            # drop lines
            parts = eff.split(b'\n')
            lines = [p + b'\n' for p in parts[:-1]] + ([parts[-1]] if parts[-1] else [])
            for sub in R.drop_each(lines, 0):
                c = copy.deepcopy(sc)
                rebuild(c, tid, b''.join(sub), None)
                yield c
            if s.get('code'):
                c = copy.deepcopy(sc)
                c['run']['scripts'][tid]['code'] = 0
                yield c
            if s.get('eof'):
                c = copy.deepcopy(sc)
                c['run']['scripts'][tid].pop('eof')
                yield c
            if s['dur'] > 0.0 and s['dur'] < t['timeout']:
                c = copy.deepcopy(sc)
                c['run']['scripts'][tid]['dur'] = 0.0
                for o in c['run']['scripts'][tid]['out']:
                    o[0] = 0.0
                yield c
        for key in ('verbose', 'errorlogs'):
            if sc['run'].get(key):
                c = copy.deepcopy(sc)
                c['run'][key] = False
                yield c
        for key in ('batch', 'eager', 'coalesce', 'tie_random'):
            if sc['run']['sim'].get(key):
                c = copy.deepcopy(sc)
                c['run']['sim'][key] = False
                yield c


CHECK = Check()
