"""Reference executor for a parsed manifest: the *simulator* is the scheduler.

Among the edges whose declared inputs are all built it picks the next one by a
seeded policy (random, reverse declaration order, consumers-first ...), runs it
atomically with /bin/sh -c in the build directory (creating output directories
and response files as ninja does), and records exit status and output digests.
Hermetic replay re-executes one edge in a build directory that holds only the
configure-time files plus the declared outputs of the edge's ancestors.
"""
from __future__ import annotations

import hashlib
import os
import random
import shutil
import subprocess
import typing as T

from .manifest import Manifest, Edge


def file_digest(path: str) -> str:
    if os.path.islink(path):
        return 'link:' + os.readlink(path)
    if os.path.isdir(path):
        h = hashlib.sha256()
        for dp, dn, fn in os.walk(path):
            dn.sort()
            for f in sorted(fn):
                p = os.path.join(dp, f)
                h.update(os.path.relpath(p, path).encode())
                h.update(file_digest(p).encode())
        return 'dir:' + h.hexdigest()[:24]
    try:
        with open(path, 'rb') as f:
            data = f.read()
    except OSError:
        return 'missing'
    # thin archives and objects are deterministic for identical inputs at identical paths
    return hashlib.sha256(data).hexdigest()[:24]


class RunResult(T.NamedTuple):
    ok: bool
    failed_edge: T.Optional[int]
    detail: str
    order: T.List[int]
    digests: T.Dict[str, str]
    steps: int


class Executor:
    def __init__(self, manifest: Manifest, builddir: str, env: T.Dict[str, str]) -> None:
        self.m = manifest
        self.bd = builddir
        self.env = env

    def runnable(self, e: Edge) -> bool:
        """Edges of the console pool (test/install/dist/regenerate helpers) are never executed."""
        if e.rule == 'phony':
            return False
        pool = e.vars.get('pool') or self.m.rules[e.rule].vars.get('pool', '')
        return pool != 'console'

    def run_edge(self, e: Edge) -> T.Tuple[int, str]:
        for o in e.all_outs:
            d = os.path.dirname(os.path.join(self.bd, o))
            os.makedirs(d, exist_ok=True)
        rsp = self.m.edge_var(e, 'rspfile')
        if rsp:
            p = os.path.join(self.bd, rsp)
            os.makedirs(os.path.dirname(p), exist_ok=True)
            with open(p, 'w') as f:
                f.write(self.m.edge_var(e, 'rspfile_content'))
        cmd = self.m.command(e)
        try:
            cp = subprocess.run(['/bin/sh', '-c', cmd], cwd=self.bd, env=self.env, capture_output=True, text=True,
                                errors='backslashreplace', timeout=300)
            rc, out = cp.returncode, (cp.stdout + cp.stderr)
        except subprocess.TimeoutExpired:
            rc, out = 124, 'timed out'
        if rsp and rc == 0:
            try:
                os.unlink(os.path.join(self.bd, rsp))
            except OSError:
                pass
        return rc, out

    def schedule(self, edges: T.List[Edge], policy: str, rng: random.Random) -> RunResult:
        """Execute `edges` (closed under dependencies) in an order chosen by `policy` among ready edges."""
        m = self.m
        ids = {e.idx for e in edges}
        byid = {e.idx: e for e in edges}
        done: T.Set[int] = set()
        order: T.List[int] = []
        consumers: T.Dict[int, int] = {}
        for e in edges:
            for i in e.all_ins:
                p = m.producer.get(i)
                if p is not None and p.idx in ids:
                    consumers[p.idx] = consumers.get(p.idx, 0) + 1
        depth_cache: T.Dict[int, int] = {}

        def depth(e: Edge) -> int:
            if e.idx in depth_cache:
                return depth_cache[e.idx]
            depth_cache[e.idx] = 0
            d = 0
            for i in e.all_ins:
                p = m.producer.get(i)
                if p is not None and p.idx in ids:
                    d = max(d, 1 + depth(p))
            depth_cache[e.idx] = d
            return d
        steps = 0
        while len(done) < len(edges):
            ready = []
            for e in edges:
                if e.idx in done:
                    continue
                if all((m.producer.get(i) is None) or (m.producer[i].idx in done) or (m.producer[i].idx not in ids) for i in e.all_ins):
                    ready.append(e)
            if not ready:
                return RunResult(False, None, 'no edge is ready: dependency cycle', order, {}, steps)
            if policy == 'declaration':
                pick = min(ready, key=lambda e: e.idx)
            elif policy == 'reverse':
                pick = max(ready, key=lambda e: e.idx)
            elif policy == 'consumers-first':
                # prefer compile/link steps over generators whenever the graph allows: deepest first, generators last
                pick = max(ready, key=lambda e: (depth(e), -consumers.get(e.idx, 0), e.idx))
            elif policy == 'producers-first':
                # the order most forgiving to a missing edge: everything that generates files first, then compiles, then links
                def stage(e: Edge) -> int:
                    r = e.rule
                    if r.endswith('_COMPILER') or r.endswith('_PCH'):
                        return 1
                    if r.endswith('_LINKER') or r in ('STATIC_LINKER', 'SHSYM'):
                        return 2
                    return 0
                pick = min(ready, key=lambda e: (stage(e), e.idx))
            elif policy == 'generators-last':
                pick = min(ready, key=lambda e: (consumers.get(e.idx, 0), -e.idx))
            else:
                pick = rng.choice(ready)
            done.add(pick.idx)
            order.append(pick.idx)
            if not self.runnable(pick):
                continue
            steps += 1
            rc, out = self.run_edge(pick)
            if rc != 0:
                return RunResult(False, pick.idx, f'edge {pick.outs} (line {pick.line}) failed with status {rc}: {out[-1500:]}', order, {}, steps)
            for o in pick.all_outs:
                if not os.path.lexists(os.path.join(self.bd, o)):
                    return RunResult(False, pick.idx, f'edge at line {pick.line} succeeded but did not create its declared output {o}', order, {}, steps)
        dig = {}
        for e in edges:
            if self.runnable(e):
                for o in e.all_outs:
                    dig[o] = file_digest(os.path.join(self.bd, o))
        return RunResult(True, None, '', order, dig, steps)


def restore_tree(src: str, dst: str) -> None:
    """Make dst an exact copy of src (dst is emptied first)."""
    if os.path.isdir(dst):
        for name in os.listdir(dst):
            p = os.path.join(dst, name)
            if os.path.isdir(p) and not os.path.islink(p):
                shutil.rmtree(p)
            else:
                os.unlink(p)
    else:
        os.makedirs(dst)
    for name in os.listdir(src):
        s = os.path.join(src, name)
        d = os.path.join(dst, name)
        if os.path.isdir(s) and not os.path.islink(s):
            shutil.copytree(s, d, symlinks=True)
        else:
            shutil.copy2(s, d, follow_symlinks=False)


def copy_output(full: str, bd: str, rel: str) -> None:
    s = os.path.join(full, rel)
    d = os.path.join(bd, rel)
    if not os.path.lexists(s):
        return
    os.makedirs(os.path.dirname(d), exist_ok=True)
    if os.path.isdir(s) and not os.path.islink(s):
        if os.path.isdir(d):
            shutil.rmtree(d)
        shutil.copytree(s, d, symlinks=True)
    else:
        shutil.copy2(s, d, follow_symlinks=False)
