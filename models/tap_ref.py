"""Reference interpretation of a TAP 12/13 line stream (DESIGN Appendix A.3).

Independent of mesonbuild: a hand-written line classifier (no regexes shared
with the implementation) and a small state machine.  For each input line and
for end-of-stream it says

    test : None | (number, name, status)      status in OK/FAIL/SKIP/EXPECTEDFAIL/UNEXPECTEDPASS
    err  : 'must' | 'no' | 'may'              must an error/bail-out event be produced here?

'may' marks situations the property statement does not decide (e.g. a missing
plan, a SKIP plan with a non-zero count, duplicate numbers that leave
highest == count); nothing is demanded there.
"""
from __future__ import annotations

import typing as T

OK, FAIL, SKIP, XFAIL, XPASS = 'OK', 'FAIL', 'SKIP', 'EXPECTEDFAIL', 'UNEXPECTEDPASS'
WS = ' \t\r\n\x0b\x0c'


def toint(digits: str) -> int:
    """int() of a digit string of any length (CPython refuses more than 4300 digits at once)."""
    n = 0
    for k in range(0, len(digits), 4000):
        part = digits[k:k + 4000]
        n = n * 10 ** len(part) + int(part)
    return n


def _is_digits(s: str) -> bool:
    return s != '' and all(c in '0123456789' for c in s)


def _split_directive(rest: str) -> T.Tuple[str, T.Optional[str], T.Optional[str], bool]:
    """rest = text after the (optional) number.  Returns (description, directive, explanation, ambiguous)."""
    if '#' not in rest:
        return rest.strip(), None, None, False
    desc, tail = rest.split('#', 1)
    t = tail.lstrip(WS)
    # first word of the directive
    i = 0
    while i < len(t) and t[i] not in WS:
        i += 1
    word, after = t[:i], t[i:]
    up = word.upper()
    if up.startswith('SKIP'):
        return desc.strip(), 'SKIP', after.strip() or None, False
    if up == 'TODO':
        return desc.strip(), 'TODO', after.strip() or None, False
    if up.startswith('TODO'):
        # "TODO:" / "TODOs" - the documents do not say; undecided
        return desc.strip(), None, None, True
    if '#' in tail:
        # a second '#': which one starts the directive is undecided
        return desc.strip(), None, None, True
    return desc.strip(), None, None, False


class Line(T.NamedTuple):
    kind: str                      # test/plan/version/bail/diag/blank/yaml/unknown/eof
    test: T.Optional[T.Tuple[int, str, str]]
    err: str                       # must/no/may
    why: str


class TapRef:
    def __init__(self) -> None:
        self.version = 12
        self.plan: T.Optional[int] = None
        self.plan_late = False
        self.late_flagged = False
        self.count = 0
        self.last = 0
        self.highest = 0
        self.numbers: T.List[int] = []
        self.lineno = 0
        self.after_test = False
        self.in_yaml = False
        self.yaml_indent = ''
        self.bailed = False
        self.ambiguous_numbering = False

    def feed(self, raw: str) -> Line:
        self.lineno += 1
        after_test, self.after_test = self.after_test, False
        pre_err = None
        if self.in_yaml:
            s = raw.rstrip(WS)
            body = s.lstrip(WS)
            if s != body and body == '...':
                self.in_yaml = False
                return Line('yaml', None, 'no', 'yaml end')
            if s != body and body.startswith('...'):
                self.in_yaml = False     # "  ...x": undecided whether it terminates
                return Line('yaml', None, 'may', 'yaml end with trailing text')
            if raw.startswith(self.yaml_indent):
                return Line('yaml', None, 'no', 'yaml content')
            # a less-indented line breaks the block: error, then the line is read normally
            self.in_yaml = False
            pre_err = 'unterminated yaml'
        elif after_test and self.version >= 13:
            lead = raw[:len(raw) - len(raw.lstrip(WS))]
            if lead and raw[len(lead):].startswith('---'):
                self.in_yaml = True
                self.yaml_indent = lead
                return Line('yaml', None, 'no', 'yaml start')
        ln = self._main(raw.rstrip(WS))
        if pre_err:
            return Line(ln.kind, ln.test, 'must', pre_err + ('; ' + ln.why if ln.why else ''))
        return ln

    def _main(self, line: str) -> Line:
        if line == '':
            return Line('blank', None, 'no', '')
        if line.startswith('#'):
            return Line('diag', None, 'no', '')
        # --- test line
        body = None
        okflag = True
        if line.startswith('not ok'):
            body, okflag = line[6:], False
        elif line.startswith('ok'):
            body = line[2:]
        if body is not None:
            amb = False
            if body and body[0] not in WS and body[0] not in '0123456789#':
                # "okay", "ok-foo": is that a test line?  undecided -> nothing demanded for this line
                amb = True
            rest = body.lstrip(WS)
            i = 0
            while i < len(rest) and rest[i] in '0123456789':
                i += 1
            numtxt, rest2 = rest[:i], rest[i:]
            if numtxt and rest2 and rest2[0] not in WS and rest2[0] != '#':
                amb = True     # "ok 1foo"
            desc, directive, expl, amb2 = _split_directive(rest2)
            amb = amb or amb2
            errs: T.List[str] = []
            must = False
            if self.plan is not None and self.plan_late and not self.late_flagged:
                must = True
                self.late_flagged = True
                errs.append('test after late plan')
            self.count += 1
            self.last = toint(numtxt) if numtxt else self.last + 1
            self.highest = max(self.highest, self.last)
            self.numbers.append(self.last)
            if self.plan is not None and self.last > self.plan:
                must = True
                errs.append('number beyond plan')
            if directive == 'SKIP' and okflag:
                st = SKIP
            elif directive == 'SKIP':
                st = FAIL        # "not ok # SKIP": a failure (unit test test_one_test_skip_failure agrees)
            elif directive == 'TODO':
                st = XPASS if okflag else XFAIL
            else:
                st = OK if okflag else FAIL
            self.after_test = True
            if amb:
                self.ambiguous_numbering = True
                return Line('test?', None, 'may', 'ambiguous test line')
            return Line('test', (self.last, desc, st), 'must' if must else 'no', ', '.join(errs))
        # --- plan
        if line.startswith('1..'):
            rest = line[3:]
            i = 0
            while i < len(rest) and rest[i] in '0123456789':
                i += 1
            if i > 0:
                n = toint(rest[:i])
                tail = rest[i:]
                if self.plan is not None:
                    return Line('plan', None, 'must', 'second plan')
                desc, directive, expl, amb = _split_directive(tail)
                self.plan = n
                self.plan_late = self.count > 0
                err = 'no'
                why = ''
                if tail.strip() and not tail.lstrip(WS).startswith('#'):
                    err, why = 'may', 'text after plan'
                elif directive == 'SKIP' and n > 0:
                    err, why = 'may', 'SKIP plan with count > 0'
                elif directive == 'TODO' or amb:
                    err, why = 'may', 'non-SKIP directive on plan'
                return Line('plan', None, err, why)
        # --- bail out
        if line.startswith('Bail out!'):
            self.bailed = True
            return Line('bail', None, 'must', 'bail out')
        # --- version
        if line.startswith('TAP version '):
            v = line[len('TAP version '):]
            i = 0
            while i < len(v) and v[i] in '0123456789':
                i += 1
            if i > 0:
                if self.lineno != 1:
                    return Line('version', None, 'must', 'misplaced version line')
                ver = toint(v[:i])
                self.version = ver
                if ver < 13:
                    return Line('version', None, 'may', 'version below 13')
                return Line('version', None, 'no', '')
        return Line('unknown', None, 'no', '')

    def eof(self) -> Line:
        errs: T.List[str] = []
        must = False
        may = False
        if self.in_yaml:
            must = True
            errs.append('unterminated yaml at EOF')
        if not self.bailed:
            if self.plan is not None and self.count != self.plan:
                must = True
                errs.append('plan/count mismatch')
            elif self.highest != self.count:
                must = True
                errs.append('duplicate or missing numbers')
            elif sorted(self.numbers) != list(range(1, self.count + 1)):
                may = True
                errs.append('duplicates/gaps with highest == count')
            if self.plan is None:
                may = True
                errs.append('no plan')
        else:
            may = True
        if self.ambiguous_numbering:
            may = True
            must = False
        return Line('eof', None, 'must' if must else ('may' if may else 'no'), ', '.join(errs))


def interpret(lines: T.Sequence[str]) -> T.List[Line]:
    r = TapRef()
    out = [r.feed(l) for l in lines]
    out.append(r.eof())
    return out


def verdict_bad(ref: T.Sequence[Line], exit_nonzero: bool, timed_out: bool = False) -> T.Optional[bool]:
    """True/False = the TAP test must (not) be reported bad; None = undecided."""
    if exit_nonzero or timed_out:
        return True
    bad = False
    undecided = False
    for l in ref:
        if l.test is not None and l.test[2] in (FAIL, XPASS):
            bad = True
        if l.err == 'must':
            bad = True
        elif l.err == 'may':
            undecided = True
    if bad:
        return True
    return None if undecided else False
